// slfacts — rustc_private fact extractor for the searchlite static rules.
//
// Invoked through RUSTC_WORKSPACE_WRAPPER (argv[1] is the real rustc path and is dropped).
// For every workspace crate whose name starts with `searchlite` it writes ONE JSON file per
// rustc process into $SLFACTS_OUT: ADT tables and, for every fn / assoc fn / closure body,
// the typed MIR as built from THIR (`mir_built`, i.e. before borrowck, drop elaboration and
// the coroutine transform) with resolved callees.
#![feature(rustc_private)]

extern crate rustc_abi;
extern crate rustc_driver;
extern crate rustc_hir;
extern crate rustc_interface;
extern crate rustc_middle;
extern crate rustc_session;
extern crate rustc_span;

mod json;

use json::J;
use rustc_driver::{Callbacks, Compilation};
use rustc_hir::def::DefKind;
use rustc_hir::def_id::{DefId, LocalDefId};
use rustc_interface::interface;
use rustc_middle::mir::{
    self, AggregateKind, BasicBlockData, Body, BorrowKind, CastKind, Const, Operand, Place,
    PlaceElem, Rvalue, StatementKind, TerminatorKind,
};
use rustc_middle::ty::print::{with_crate_prefix, with_no_trimmed_paths, with_no_visible_paths};
use rustc_middle::ty::{self, Instance, InstanceKind, Ty, TyCtxt, TypingEnv};
use rustc_span::Span;

struct Cb {
    cfgs: Vec<String>,
    crate_types: Vec<String>,
}

// `with_crate_prefix!` prints local items as `crate::…`; rewrite that to the crate's own name so
// that a definition has the same string whether it is seen from its own crate or from a dependant.
fn fix_crate(tcx: TyCtxt<'_>, s: String) -> String {
    if !s.contains("crate::") {
        return s;
    }
    let name = tcx.crate_name(rustc_hir::def_id::LOCAL_CRATE).to_string();
    let mut out = String::with_capacity(s.len() + 16);
    let b = s.as_bytes();
    let mut i = 0;
    while i < b.len() {
        if s[i..].starts_with("crate::") && (i == 0 || !(b[i - 1].is_ascii_alphanumeric() || b[i - 1] == b'_')) {
            out.push_str(&name);
            out.push_str("::");
            i += 7;
        } else {
            let c = s[i..].chars().next().unwrap();
            out.push(c);
            i += c.len_utf8();
        }
    }
    out
}

fn path_of(tcx: TyCtxt<'_>, did: DefId) -> String {
    let s = with_no_visible_paths!(with_no_trimmed_paths!(with_crate_prefix!(tcx.def_path_str(did))));
    fix_crate(tcx, s)
}

fn ty_str_tcx<'tcx>(tcx: TyCtxt<'tcx>, ty: Ty<'tcx>) -> String {
    let s = with_no_visible_paths!(with_no_trimmed_paths!(with_crate_prefix!(ty.to_string())));
    fix_crate(tcx, s)
}

struct Ctx<'tcx> {
    tcx: TyCtxt<'tcx>,
}

impl<'tcx> Ctx<'tcx> {
    fn span_info(&self, span: Span) -> (String, usize, Vec<String>) {
        let sm = self.tcx.sess.source_map();
        let mut macros = Vec::new();
        for ed in span.macro_backtrace() {
            if let rustc_span::ExpnKind::Macro(_, name) = ed.kind {
                macros.push(name.to_string());
            } else if let rustc_span::ExpnKind::Desugaring(k) = ed.kind {
                macros.push(format!("desugar:{:?}", k));
            }
        }
        // Walk out to the outermost call site that is in user code.
        let cs = span.source_callsite();
        let loc = sm.lookup_char_pos(cs.lo());
        let file = match &loc.file.name {
            rustc_span::FileName::Real(r) => match r.local_path() {
                Some(p) => p.to_string_lossy().to_string(),
                None => format!("{:?}", r),
            },
            other => format!("{:?}", other),
        };
        (file, loc.line, macros)
    }

    fn place(&self, body: &Body<'tcx>, p: &Place<'tcx>) -> J {
        let mut projs = Vec::new();
        let mut pty = mir::PlaceTy::from_ty(body.local_decls[p.local].ty);
        for elem in p.projection.iter() {
            let j = match elem {
                PlaceElem::Deref => J::s("deref"),
                PlaceElem::Field(f, _) => {
                    let mut name = format!("{}", f.index());
                    let mut owner = String::new();
                    if let ty::Adt(adt, _) = pty.ty.kind() {
                        let vi = pty.variant_index.unwrap_or(rustc_abi::FIRST_VARIANT);
                        if adt.variants().len() > vi.index() {
                            let v = &adt.variants()[vi];
                            if f.index() < v.fields.len() {
                                name = v.fields[f].name.to_string();
                            }
                            owner = path_of(self.tcx, adt.did());
                            if adt.is_enum() {
                                owner = format!("{}::{}", owner, v.name);
                            }
                        }
                    } else if let ty::Closure(did, _) | ty::Coroutine(did, _) | ty::CoroutineClosure(did, _) = pty.ty.kind() {
                        // upvar: name it from the closure's captured variable list
                        if let Some(ld) = did.as_local() {
                            let ups: Vec<_> = self.tcx.closure_captures(ld).iter().collect();
                            if f.index() < ups.len() {
                                name = format!("upvar:{}", ups[f.index()].to_string(self.tcx));
                            }
                        }
                        owner = path_of(self.tcx, *did);
                    }
                    J::obj(vec![("f", J::Str(name)), ("i", J::Int(f.index() as i128)), ("of", J::Str(owner))])
                }
                PlaceElem::Index(l) => J::obj(vec![("index", J::Int(l.index() as i128))]),
                PlaceElem::ConstantIndex { offset, from_end, .. } => {
                    J::obj(vec![("cindex", J::Int(offset as i128)), ("from_end", J::Bool(from_end))])
                }
                PlaceElem::Subslice { .. } => J::s("subslice"),
                PlaceElem::Downcast(name, vi) => J::obj(vec![
                    ("downcast", J::Str(name.map(|n| n.to_string()).unwrap_or_default())),
                    ("vi", J::Int(vi.index() as i128)),
                ]),
                PlaceElem::OpaqueCast(_) => J::s("opaque"),
                PlaceElem::UnwrapUnsafeBinder(_) => J::s("unwrap_binder"),
            };
            projs.push(j);
            pty = pty.projection_ty(self.tcx, elem);
        }
        J::obj(vec![("l", J::Int(p.local.index() as i128)), ("p", J::Arr(projs))])
    }

    fn constant(&self, env: TypingEnv<'tcx>, c: &mir::ConstOperand<'tcx>) -> J {
        let ty = c.const_.ty();
        let mut fields = vec![("ty", J::Str(ty_str_tcx(self.tcx, ty)))];
        match ty.kind() {
            ty::FnDef(did, args) => {
                fields.push(("fn", J::Str(path_of(self.tcx, *did))));
                if let Ok(Some(inst)) = Instance::try_resolve(self.tcx, env, *did, args) {
                    let rd = inst.def_id();
                    let virt = matches!(inst.def, InstanceKind::Virtual(..));
                    if rd != *did && !virt {
                        fields.push(("resolved", J::Str(path_of(self.tcx, rd))));
                    }
                }
            }
            ty::Closure(did, _) | ty::Coroutine(did, _) | ty::CoroutineClosure(did, _) => {
                fields.push(("closure", J::Str(path_of(self.tcx, *did))));
            }
            _ => {
                if ty.is_integral() || ty.is_bool() || ty.is_char() || ty.is_floating_point() {
                    if let Some(si) = c.const_.try_eval_scalar_int(self.tcx, env) {
                        let size = si.size();
                        let bits = si.to_bits(size);
                        if ty.is_signed() {
                            let v = size.sign_extend(bits) as i128;
                            fields.push(("int", J::Int(v)));
                        } else if ty.is_floating_point() {
                            let f = if size.bytes() == 4 {
                                f32::from_bits(bits as u32) as f64
                            } else {
                                f64::from_bits(bits as u64)
                            };
                            fields.push(("float", J::Str(format!("{:?}", f))));
                        } else {
                            fields.push(("int", J::Int(bits as i128)));
                        }
                    }
                }
            }
        }
        let txt = fix_crate(self.tcx, with_no_visible_paths!(with_no_trimmed_paths!(with_crate_prefix!(format!("{}", c.const_)))));
        let txt = if txt.len() > 300 { txt.chars().take(300).collect() } else { txt };
        fields.push(("txt", J::Str(txt)));
        if let Const::Unevaluated(uv, _) = c.const_ {
            fields.push(("def", J::Str(path_of(self.tcx, uv.def))));
        }
        J::obj(vec![("c", J::obj(fields))])
    }

    fn operand(&self, body: &Body<'tcx>, env: TypingEnv<'tcx>, o: &Operand<'tcx>) -> J {
        match o {
            Operand::Copy(p) => J::obj(vec![("cp", self.place(body, p))]),
            Operand::Move(p) => J::obj(vec![("mv", self.place(body, p))]),
            Operand::Constant(c) => self.constant(env, c),
            #[allow(unreachable_patterns)]
            _ => J::obj(vec![("other", J::Str(format!("{:?}", o)))]),
        }
    }

    fn rvalue(&self, body: &Body<'tcx>, env: TypingEnv<'tcx>, rv: &Rvalue<'tcx>) -> J {
        match rv {
            Rvalue::Use(o, ..) => J::obj(vec![("k", J::s("use")), ("a", self.operand(body, env, o))]),
            Rvalue::Repeat(o, _) => J::obj(vec![("k", J::s("repeat")), ("a", self.operand(body, env, o))]),
            Rvalue::Ref(_, bk, p) => J::obj(vec![
                ("k", J::s("ref")),
                ("mut", J::Bool(matches!(bk, BorrowKind::Mut { .. }))),
                ("fake", J::Bool(matches!(bk, BorrowKind::Fake(..)))),
                ("place", self.place(body, p)),
            ]),
            Rvalue::RawPtr(kind, p) => J::obj(vec![
                ("k", J::s("rawptr")),
                ("mut", J::Bool(format!("{:?}", kind).contains("Mut"))),
                ("place", self.place(body, p)),
            ]),
            Rvalue::Cast(kind, o, ty) => J::obj(vec![
                ("k", J::s("cast")),
                ("ck", J::Str(match kind {
                    CastKind::PointerCoercion(pc, _) => format!("PointerCoercion({:?})", pc),
                    other => format!("{:?}", other),
                })),
                ("a", self.operand(body, env, o)),
                ("ty", J::Str(ty_str_tcx(self.tcx, *ty))),
            ]),
            Rvalue::BinaryOp(op, ab) => J::obj(vec![
                ("k", J::s("binop")),
                ("op", J::Str(format!("{:?}", op))),
                ("a", self.operand(body, env, &ab.0)),
                ("b", self.operand(body, env, &ab.1)),
            ]),
            Rvalue::UnaryOp(op, o) => J::obj(vec![
                ("k", J::s("unop")),
                ("op", J::Str(format!("{:?}", op))),
                ("a", self.operand(body, env, o)),
            ]),
            Rvalue::Discriminant(p) => J::obj(vec![("k", J::s("discr")), ("place", self.place(body, p))]),
            Rvalue::CopyForDeref(p) => J::obj(vec![("k", J::s("use")), ("a", J::obj(vec![("cp", self.place(body, p))]))]),
            Rvalue::Aggregate(kind, ops) => {
                let mut f = vec![("k", J::s("agg"))];
                match &**kind {
                    AggregateKind::Array(_) => f.push(("ak", J::s("array"))),
                    AggregateKind::Tuple => f.push(("ak", J::s("tuple"))),
                    AggregateKind::Adt(did, vi, _, _, _) => {
                        f.push(("ak", J::s("adt")));
                        f.push(("adt", J::Str(path_of(self.tcx, *did))));
                        let adt = self.tcx.adt_def(*did);
                        let v = &adt.variants()[*vi];
                        f.push(("variant", J::Str(v.name.to_string())));
                        f.push(("vi", J::Int(vi.index() as i128)));
                        f.push(("fields", J::Arr(v.fields.iter().map(|fd| J::Str(fd.name.to_string())).collect())));
                    }
                    AggregateKind::Closure(did, _)
                    | AggregateKind::Coroutine(did, _)
                    | AggregateKind::CoroutineClosure(did, _) => {
                        f.push(("ak", J::s("closure")));
                        f.push(("closure", J::Str(path_of(self.tcx, *did))));
                    }
                    AggregateKind::RawPtr(..) => f.push(("ak", J::s("rawptr"))),
                }
                f.push(("ops", J::Arr(ops.iter().map(|o| self.operand(body, env, o)).collect())));
                J::obj(f)
            }
            other => {
                let s = format!("{:?}", other);
                let s: String = s.chars().take(200).collect();
                J::obj(vec![("k", J::s("other")), ("txt", J::Str(s))])
            }
        }
    }

    fn block(&self, body: &Body<'tcx>, env: TypingEnv<'tcx>, bb: &BasicBlockData<'tcx>) -> J {
        let mut stmts = Vec::new();
        for st in &bb.statements {
            match &st.kind {
                StatementKind::Assign(b) => {
                    let (p, rv) = &**b;
                    let (_, line, macros) = self.span_info(st.source_info.span);
                    let mut f = vec![
                        ("k", J::s("assign")),
                        ("dst", self.place(body, p)),
                        ("rv", self.rvalue(body, env, rv)),
                        ("line", J::Int(line as i128)),
                    ];
                    if !macros.is_empty() {
                        f.push(("macros", J::Arr(macros.into_iter().map(J::Str).collect())));
                    }
                    stmts.push(J::obj(f));
                }
                StatementKind::SetDiscriminant { place, variant_index } => {
                    stmts.push(J::obj(vec![
                        ("k", J::s("setdiscr")),
                        ("dst", self.place(body, place)),
                        ("vi", J::Int(variant_index.index() as i128)),
                    ]));
                }
                StatementKind::StorageDead(l) => {
                    stmts.push(J::obj(vec![("k", J::s("dead")), ("l", J::Int(l.index() as i128))]));
                }
                StatementKind::Intrinsic(i) => {
                    let s: String = format!("{:?}", i).chars().take(200).collect();
                    stmts.push(J::obj(vec![("k", J::s("intrinsic")), ("txt", J::Str(s))]));
                }
                _ => {}
            }
        }
        let term = bb.terminator();
        let (_, line, macros) = self.span_info(term.source_info.span);
        let mut t: Vec<(&str, J)> = Vec::new();
        match &term.kind {
            TerminatorKind::Goto { target } => {
                t.push(("k", J::s("goto")));
                t.push(("target", J::Int(target.index() as i128)));
            }
            TerminatorKind::SwitchInt { discr, targets } => {
                t.push(("k", J::s("switch")));
                t.push(("on", self.operand(body, env, discr)));
                let mut vals = Vec::new();
                let mut tgts = Vec::new();
                for (v, bb) in targets.iter() {
                    vals.push(J::Int(v as i128));
                    tgts.push(J::Int(bb.index() as i128));
                }
                t.push(("values", J::Arr(vals)));
                t.push(("targets", J::Arr(tgts)));
                t.push(("otherwise", J::Int(targets.otherwise().index() as i128)));
                t.push(("on_ty", J::Str(ty_str_tcx(self.tcx, discr.ty(&body.local_decls, self.tcx)))));
            }
            TerminatorKind::Return => t.push(("k", J::s("return"))),
            TerminatorKind::Unreachable => t.push(("k", J::s("unreachable"))),
            TerminatorKind::UnwindResume => t.push(("k", J::s("resume"))),
            TerminatorKind::UnwindTerminate(_) => t.push(("k", J::s("terminate"))),
            TerminatorKind::CoroutineDrop => t.push(("k", J::s("coroutine_drop"))),
            TerminatorKind::Drop { place, target, .. } => {
                t.push(("k", J::s("drop")));
                t.push(("place", self.place(body, place)));
                t.push(("target", J::Int(target.index() as i128)));
            }
            TerminatorKind::Call { func, args, destination, target, fn_span, .. } => {
                t.push(("k", J::s("call")));
                let fty = func.ty(&body.local_decls, self.tcx);
                match fty.kind() {
                    ty::FnDef(did, gargs) => {
                        t.push(("callee", J::Str(path_of(self.tcx, *did))));
                        let mut virt = false;
                        match Instance::try_resolve(self.tcx, env, *did, gargs) {
                            Ok(Some(inst)) => {
                                virt = matches!(inst.def, InstanceKind::Virtual(..));
                                let rd = inst.def_id();
                                if !virt {
                                    t.push(("resolved", J::Str(path_of(self.tcx, rd))));
                                }
                                t.push(("ik", J::Str(match inst.def {
                                    InstanceKind::Item(_) => "item".to_string(),
                                    InstanceKind::Virtual(..) => "virtual".to_string(),
                                    InstanceKind::Intrinsic(_) => "intrinsic".to_string(),
                                    InstanceKind::ClosureOnceShim { .. } => "closure_once".to_string(),
                                    InstanceKind::FnPtrShim(..) => "fnptr_shim".to_string(),
                                    InstanceKind::ReifyShim(..) => "reify".to_string(),
                                    InstanceKind::DropGlue(..) => "drop_glue".to_string(),
                                    InstanceKind::CloneShim(..) => "clone_shim".to_string(),
                                    _ => "other".to_string(),
                                })));
                            }
                            _ => {
                                t.push(("ik", J::s("unresolved")));
                            }
                        }
                        let _ = virt;
                        let ga: Vec<J> = gargs.iter().map(|a| {
                            J::Str(fix_crate(self.tcx, with_no_visible_paths!(with_no_trimmed_paths!(with_crate_prefix!(a.to_string())))))
                        }).collect();
                        t.push(("generic", J::Arr(ga)));
                        if let Some(tr) = self.tcx.trait_of_assoc(*did) {
                            t.push(("trait", J::Str(path_of(self.tcx, tr))));
                        }
                    }
                    _ => {
                        t.push(("callee", J::Str("<indirect>".to_string())));
                        t.push(("fn_op", self.operand(body, env, func)));
                        t.push(("fn_ty", J::Str(ty_str_tcx(self.tcx, fty))));
                    }
                }
                t.push(("args", J::Arr(args.iter().map(|a| self.operand(body, env, &a.node)).collect())));
                t.push(("dst", self.place(body, destination)));
                t.push(("dst_ty", J::Str(ty_str_tcx(self.tcx, destination.ty(&body.local_decls, self.tcx).ty))));
                match target {
                    Some(tg) => t.push(("target", J::Int(tg.index() as i128))),
                    None => t.push(("target", J::Null)),
                }
                let (_, fl, _) = self.span_info(*fn_span);
                t.push(("fn_line", J::Int(fl as i128)));
            }
            TerminatorKind::TailCall { func, args, .. } => {
                t.push(("k", J::s("tailcall")));
                t.push(("fn_op", self.operand(body, env, func)));
                t.push(("args", J::Arr(args.iter().map(|a| self.operand(body, env, &a.node)).collect())));
            }
            TerminatorKind::Assert { cond, expected, msg, target, .. } => {
                t.push(("k", J::s("assert")));
                t.push(("cond", self.operand(body, env, cond)));
                t.push(("expected", J::Bool(*expected)));
                let m: String = format!("{:?}", msg).chars().take(120).collect();
                t.push(("msg", J::Str(m)));
                t.push(("target", J::Int(target.index() as i128)));
            }
            TerminatorKind::Yield { resume, .. } => {
                t.push(("k", J::s("yield")));
                t.push(("target", J::Int(resume.index() as i128)));
            }
            TerminatorKind::FalseEdge { real_target, .. } => {
                t.push(("k", J::s("goto")));
                t.push(("target", J::Int(real_target.index() as i128)));
            }
            TerminatorKind::FalseUnwind { real_target, .. } => {
                t.push(("k", J::s("goto")));
                t.push(("target", J::Int(real_target.index() as i128)));
            }
            TerminatorKind::InlineAsm { .. } => t.push(("k", J::s("asm"))),
        }
        t.push(("line", J::Int(line as i128)));
        if !macros.is_empty() {
            t.push(("macros", J::Arr(macros.into_iter().map(J::Str).collect())));
        }
        let mut b = vec![("stmts", J::Arr(stmts)), ("term", J::obj(t))];
        if bb.is_cleanup {
            b.push(("cleanup", J::Bool(true)));
        }
        J::obj(b)
    }

    fn function(&self, ld: LocalDefId, body: &Body<'tcx>, promoted: bool) -> Option<J> {
        let tcx = self.tcx;
        let did = ld.to_def_id();
        let kind = tcx.def_kind(did);
        let kstr = match kind {
            DefKind::Fn => "fn",
            DefKind::AssocFn => "assoc_fn",
            DefKind::Closure => "closure",
            DefKind::SyntheticCoroutineBody => "coroutine_body",
            _ => return None,
        };
        let env = TypingEnv::post_analysis(tcx, did);
        let (file, line, macros) = self.span_info(tcx.def_span(did));
        let mut f: Vec<(&str, J)> = vec![
            ("path", J::Str(path_of(tcx, did))),
            ("kind", J::s(kstr)),
            ("file", J::Str(file)),
            ("line", J::Int(line as i128)),
        ];
        if !macros.is_empty() {
            f.push(("macros", J::Arr(macros.into_iter().map(J::Str).collect())));
        }
        if matches!(kind, DefKind::Closure | DefKind::SyntheticCoroutineBody) {
            let parent = tcx.parent(did);
            f.push(("parent", J::Str(path_of(tcx, parent))));
            if tcx.is_coroutine(did) {
                f.push(("coroutine", J::Str(format!("{:?}", tcx.coroutine_kind(did)))));
            }
        }
        if matches!(kind, DefKind::Fn | DefKind::AssocFn) {
            f.push(("vis", J::Str(format!("{:?}", tcx.visibility(did)))));
            let sig = tcx.fn_sig(did).skip_binder().skip_binder();
            f.push(("abi", J::Str(format!("{:?}", sig.abi()))));
            f.push(("unsafe", J::Bool(!sig.safety().is_safe())));
            if let Some(asyncness) = Some(tcx.asyncness(did)) {
                f.push(("async", J::Bool(asyncness.is_async())));
            }
        }
        if kind == DefKind::AssocFn {
            let parent = tcx.parent(did);
            if tcx.def_kind(parent) == (DefKind::Impl { of_trait: true }) {
                let tr = tcx.impl_trait_ref(parent).skip_binder();
                f.push(("impl_trait", J::Str(path_of(tcx, tr.def_id))));
                f.push(("impl_self", J::Str(ty_str_tcx(self.tcx, tr.self_ty()))));
            } else if matches!(tcx.def_kind(parent), DefKind::Impl { .. }) {
                let st = tcx.type_of(parent).skip_binder();
                f.push(("impl_self", J::Str(ty_str_tcx(self.tcx, st))));
            } else if tcx.def_kind(parent) == DefKind::Trait {
                f.push(("in_trait", J::Str(path_of(tcx, parent))));
            }
        }
        f.push(("arg_count", J::Int(body.arg_count as i128)));
        if promoted {
            f.push(("mir_phase", J::s("promoted")));
        }
        // user variable names
        let mut names: Vec<Option<String>> = vec![None; body.local_decls.len()];
        let mut upvar_names: Vec<(usize, String)> = Vec::new();
        for vdi in &body.var_debug_info {
            if let mir::VarDebugInfoContents::Place(p) = &vdi.value {
                if p.projection.is_empty() {
                    names[p.local.index()] = Some(vdi.name.to_string());
                } else {
                    // closure upvar: _1.field
                    for e in p.projection.iter() {
                        if let PlaceElem::Field(fi, _) = e {
                            upvar_names.push((fi.index(), vdi.name.to_string()));
                            break;
                        }
                    }
                }
            }
        }
        let locals: Vec<J> = body
            .local_decls
            .iter_enumerated()
            .map(|(l, d)| {
                let mut v = vec![("ty", J::Str(ty_str_tcx(self.tcx, d.ty)))];
                if let Some(n) = &names[l.index()] {
                    v.push(("name", J::Str(n.clone())));
                }
                if d.is_user_variable() {
                    v.push(("user", J::Bool(true)));
                }
                J::obj(v)
            })
            .collect();
        f.push(("locals", J::Arr(locals)));
        if !upvar_names.is_empty() {
            f.push((
                "upvars",
                J::Arr(upvar_names.into_iter().map(|(i, n)| J::Arr(vec![J::Int(i as i128), J::Str(n)])).collect()),
            ));
        }
        let blocks: Vec<J> = body.basic_blocks.iter().map(|bb| self.block(body, env, bb)).collect();
        f.push(("blocks", J::Arr(blocks)));
        Some(J::obj(f))
    }

    fn adts(&self) -> Vec<J> {
        let tcx = self.tcx;
        let mut out = Vec::new();
        for ld in tcx.hir_crate_items(()).definitions() {
            let did = ld.to_def_id();
            let kind = tcx.def_kind(did);
            if !matches!(kind, DefKind::Struct | DefKind::Enum | DefKind::Union) {
                continue;
            }
            let adt = tcx.adt_def(did);
            let (file, line, _) = self.span_info(tcx.def_span(did));
            let variants: Vec<J> = adt
                .variants()
                .iter()
                .map(|v| {
                    J::obj(vec![
                        ("name", J::Str(v.name.to_string())),
                        (
                            "fields",
                            J::Arr(
                                v.fields
                                    .iter()
                                    .map(|fd| {
                                        J::Arr(vec![
                                            J::Str(fd.name.to_string()),
                                            J::Str(ty_str_tcx(self.tcx, tcx.type_of(fd.did).skip_binder())),
                                            J::Str(format!("{:?}", fd.vis)),
                                        ])
                                    })
                                    .collect(),
                            ),
                        ),
                    ])
                })
                .collect();
            out.push(J::obj(vec![
                ("path", J::Str(path_of(tcx, did))),
                ("kind", J::s(match kind { DefKind::Struct => "struct", DefKind::Enum => "enum", _ => "union" })),
                ("vis", J::Str(format!("{:?}", tcx.visibility(did)))),
                ("file", J::Str(file)),
                ("line", J::Int(line as i128)),
                ("variants", J::Arr(variants)),
            ]));
        }
        out
    }
}

impl Callbacks for Cb {
    fn config(&mut self, config: &mut interface::Config) {
        self.cfgs = config.crate_cfg.clone();
        self.crate_types = config.opts.crate_types.iter().map(|c| format!("{:?}", c)).collect();
    }

    fn after_expansion<'tcx>(&mut self, _compiler: &interface::Compiler, tcx: TyCtxt<'tcx>) -> Compilation {
        let krate = tcx.crate_name(rustc_hir::def_id::LOCAL_CRATE).to_string();
        let out = match std::env::var("SLFACTS_OUT") {
            Ok(o) => o,
            Err(_) => return Compilation::Continue,
        };
        if !krate.starts_with("searchlite") && std::env::var("SLFACTS_ALL").is_err() {
            return Compilation::Continue;
        }
        let cx = Ctx { tcx };
        // Pass 1: clone every body out of `mir_built` before running any query that could
        // steal one (opaque-type inference runs borrowck, const-eval runs the MIR pipeline).
        let mut bodies: Vec<(LocalDefId, Body<'tcx>, bool)> = Vec::new();
        let mut stolen: Vec<J> = Vec::new();
        let mut keys: Vec<LocalDefId> = tcx
            .mir_keys(())
            .iter()
            .copied()
            .filter(|ld| {
                matches!(
                    tcx.def_kind(ld.to_def_id()),
                    DefKind::Fn | DefKind::AssocFn | DefKind::Closure | DefKind::SyntheticCoroutineBody
                )
            })
            .collect();
        // Functions that define an opaque return type (async fn / `-> impl Trait`) first: type-checking a
        // caller asks for the hidden type, which runs borrowck on the definer and steals its `mir_built`.
        let defines_opaque = |ld: &LocalDefId| -> bool {
            let did = ld.to_def_id();
            match tcx.def_kind(did) {
                DefKind::Fn | DefKind::AssocFn => {
                    let sig = tcx.fn_sig(did).skip_binder().skip_binder();
                    tcx.asyncness(did).is_async() || format!("{:?}", sig.output()).contains("Opaque")
                        || sig.output().to_string().contains("impl ")
                }
                _ => false,
            }
        };
        keys.sort_by_key(|ld| if defines_opaque(ld) { 0 } else { 1 });
        for ld in keys.iter() {
            let st = tcx.mir_built(*ld);
            if !st.is_stolen() {
                bodies.push((*ld, st.borrow().clone(), false));
                continue;
            }
            // fall back to the promoted MIR (still before drop elaboration and the coroutine transform)
            let (pm, _) = tcx.mir_promoted(*ld);
            if !pm.is_stolen() {
                bodies.push((*ld, pm.borrow().clone(), true));
                continue;
            }
            stolen.push(J::Str(path_of(tcx, ld.to_def_id())));
        }
        let mut fns = Vec::new();
        for (ld, body, promoted) in &bodies {
            if let Some(j) = cx.function(*ld, body, *promoted) {
                fns.push(j);
            }
        }
        let adts = cx.adts();
        let opts = &tcx.sess.opts;
        let doc = J::obj(vec![
            ("crate", J::Str(krate.clone())),
            ("crate_types", J::Arr(self.crate_types.iter().cloned().map(J::Str).collect())),
            ("cfgs", J::Arr(self.cfgs.iter().cloned().map(J::Str).collect())),
            ("debug_assertions", J::Bool(opts.debug_assertions)),
            ("overflow_checks", J::Bool(tcx.sess.overflow_checks())),
            ("test", J::Bool(opts.test)),
            ("stolen", J::Arr(stolen)),
            ("adts", J::Arr(adts)),
            ("fns", J::Arr(fns)),
        ]);
        let ct = self.crate_types.first().cloned().unwrap_or_else(|| "x".into()).to_lowercase();
        let name = format!("{}/{}-{}{}-{}.json", out, krate, ct, if opts.test { "-test" } else { "" }, std::process::id());
        let mut s = String::with_capacity(1 << 20);
        doc.write(&mut s);
        // one write per process
        if let Err(e) = std::fs::write(&name, s) {
            eprintln!("slfacts: cannot write {}: {}", name, e);
            std::process::exit(101);
        }
        Compilation::Continue
    }
}

fn main() {
    let mut args: Vec<String> = std::env::args().collect();
    // RUSTC_WORKSPACE_WRAPPER: argv[1] is the path of the real rustc.
    if args.len() > 1 && (args[1].ends_with("rustc") || args[1].contains("/rustc")) {
        args.remove(1);
    }
    let mut cb = Cb { cfgs: Vec::new(), crate_types: Vec::new() };
    rustc_driver::run_compiler(&args, &mut cb);
}
