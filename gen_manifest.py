#!/usr/bin/env python3
"""Regenerate /verif/MANIFEST.json from the per-property table below (keeps it schema-valid)."""
import json, os

HERE = os.path.dirname(os.path.abspath(__file__))
LEVEL_TEXT = ("repository-specific static rules over the type-checked program (rustc MIR facts with resolved callees): "
              "decides the named structural clauses of the property for all paths / call chains, not the behaviour; %s")
NOTE = ("trusted: rustc's type-checked MIR (mir_built) as dumped by the slfacts driver, the Python rule engine, and the "
        "anchor names (public API, Storage trait) the rules bind to; floors fail closed when an anchor disappears")

# id -> (technique, what-is-decided, design section)
CLAIMED = {
    "C01": ("MIR path-order (must-pass-through dominance), fsync pairing and who-may-call rules",
            "order of log sync / segment fsync / atomic manifest replace / commit marker / publish / truncate on every path; "
            "fsync pairing of written files; every buffered writer is flushed explicitly with the error propagated; a shortened log is "
            "synced before success; who may write the manifest, delete files or touch the log", "5/C01"),
    "C02": ("sibling-table agreement (record codes, CRC input), loop-exit guard, lock-region and value-flow rules over MIR",
            "writer/reader agreement on the log record table and CRC input; replay leaves its loop at the first bad record; queue "
            "restored under the writer lock, cleared on a commit marker, discarded by rollback, synced on Drop; log cut to its "
            "intact prefix before appends; every set_len is followed by sync_all on all success paths; Wal::len (the rollback point) seeks "
            "to the end of the file", "5/C02"),
    "C03": ("MIR reachability from the publish point, outcome-arm dominance, error-disposition enumeration",
            "no error return after publish; publish only on the success arm of store+marker+sync; error arm never deletes files "
            "the on-disk manifest may reference; queue extended only after the log append; every fallible storage call in the "
            "write path propagated or listed; no write of the handle's cached state (live_docs, live_generation, queue clear) can "
            "reach an error return; the log-cutting entry points reach set_len on every success path (no `nothing to do` from cached state)", "5/C03"),
    "C04": ("who-may-call over the call graph and is_deleted guard dominance",
            "only commit/compact can publish or write segment/manifest files; every document-enumerating routine skips deleted "
            "documents; rollback discards; the staleness token of the cached id map is fresh and monotone (= C05 R05.c/d)", "5/C04"),
    "C05": ("lock-region must-analysis over MIR CFGs",
            "every shared-state effect of every writer entry point lies inside the writer_lock region on every path; cached live-docs "
            "reads are confined to the equal-generation arm, and every published segment gets a generation above all manifest "
            "generations (1 + max over all segments, no subset), and the segment list is only ever shortened by installing a freshly "
            "written segment, after its generation was computed (the maximum generation never decreases or repeats)", "5/C05"),
    "C06": ("lock-region pairing and call-graph who-may-call",
            "reader holds the manifest read lock from list copy to last file open while compaction unlinks under the write lock; an "
            "open reader never returns to path-addressed storage; every backend's remove only unlinks (never locks or mutates a "
            "file's byte buffer)", "5/C06"),
    "C07": ("control-dependence / value-flow of the candidate-source decision on the query matcher; decision-table extraction by path enumeration; influence (data + control) slice",
            "THREE clauses only: (candidate completeness) the choice of the postings-driven candidate source must consult the query "
            "matcher; today it does not (recorded known finding); (bool default) the default minimum_should_match is extracted as a "
            "decision table (0 / 1 / 0) and is independent of must_not; keyword term keys are case-folded by the same functions on the "
            "write path and on the query-expansion path. Matching semantics themselves are runtime and not decided", "5/C07"),
    "C08": ("comparator who-may-call, operator-table agreement over sibling range sites, guard on the nested-object recursion",
            "SIX clauses only: keyword comparisons go through the one case-insensitive comparator; every comparison with a range "
            "bound is >= min / <= max at all sibling sites; the nested recursion binds the iterated object and skips objects of another "
            "parent (loop form or filtered-candidates form); the writer numbers the objects of one nested path in one index space "
            "per document; column builders map per-document slots one to one (no dropping / reordering adapter); recursive walkers "
            "thread the accumulated dotted path. Which documents pass a filter tree is runtime and not decided", "5/C08"),
    "C09": ("ADT-table check of the score algebra, value-flow of tie breakers to their validator, control-dependence of the pruning threshold on the hook parameters",
            "score expression type has only sub-additive nodes with validated tie breakers; the pruning threshold is finite only when "
            "neither a collector nor a score-adjust hook is attached; collection is not gated by the heap; the length floor of the "
            "upper bounds is the positive minimum of the WHOLE length column with the scorer's own fallback; no block-level bound can end "
            "the search and block-decided skips stay within the blocks; every score leaf is freshly allocated (no two expression "
            "nodes share one). The arithmetic of the bounds themselves is not decided", "5/C09"),
    "C10": ("decision-table extraction of the comparators by path enumeration (values touched only through comparisons), argument-order and provenance flow",
            "the finite tables the ordering is built from: missing values last in both orders; Asc keeps / Desc flips / Equal stays in "
            "the three direction helpers with (a, b) argument order; ties broken by segment then document as (self, other); Asc "
            "selects the minimum and Desc the maximum of multi-valued fields; ScoredTerm.k1/b come from IndexOptions.bm25_k1/b and "
            "reach bm25() in the right positions; the document length written for BM25 is accumulated over all values of a field. "
            "Numerical score values and the order of concrete hit lists are NOT decided", "5/C10"),
    "C11": ("dominance of rejecting comparisons over success returns in the cursor decoder; hash-input coverage; argument provenance",
            "every successful cursor decode is dominated by generation / plan-hash / version tests that reject on inequality; the plan "
            "hash covers kind, name and (for every kind) order; search passes its own generation, errors on an unseen cursor and emits next_cursor "
            "only past the limit from the last hit's key; bounded top-k heaps replace by the entry type's total order, never by a "
            "projection (completeness / duplicate-freedom otherwise not decided)", "5/C11"),
    "C12": ("value-flow from request thresholds to cut-off operations in per-segment finishers and merge arms; sibling accessor agreement",
            "no truncate/filter/retain/take by size/min_doc_count/max_doc_count before all segments are merged (8 sites recorded as known "
            "findings); numeric collectors read i64 and f64 columns alike; every aggregation node that is finished is fed every "
            "collected document; fast-field column builders keep one slot per document", "5/C12"),
    "C13": ("control-dependence of collector calls on cursor-key comparisons (direct and through accept callbacks), argument provenance of the suggester",
            "documents reach the aggregation collector before the cursor test; executors never prune or gate collection while a collector "
            "is attached; suggestions depend on req.suggest only; every segment's collector is finished and merged whenever it "
            "exists (not depending on match counters or hits); the per-segment search runs for every segment (no dropping adapter, no "
            "cursor-derived per-segment test)", "5/C13"),
    "C14": ("dominance of the safety check over writes and the manifest lock; field-class containment between ingestion and the safety check; decision-table extraction by path enumeration",
            "compaction refuses before touching anything; every Schema field list consumed by the segment build is examined by "
            "ensure_compact_safe (thorough tier: also under the vectors feature); the guard's per-field decision table refuses every "
            "(kind, indexed, fast) combination for which the build writes segment-only data and stored is false; the re-ingestion of "
            "a document is controlled by is_deleted alone", "5/C14"),
    "C15": ("call-graph containment of error origins (commit-time per-document checks ⊆ add-time checks) with dominance over the WAL append",
            "every function in which the segment build can originate a content error is also run by add_document before the WAL "
            "append, with failure returning an error, and the shared checkers run on EVERY accepting path (must, not may); nothing "
            "fallible runs between append and queue push; the schema walkers (resolved fields, analyzer map, collector) thread the same "
            "accumulated nested path", "5/C15"),
    "C16": ("panic-source enumeration over the call graph with local discharge patterns and a reasoned table; validator dominance",
            "every explicit unwrap/expect/panic!/assert!/unreachable! reachable from IndexReader::search is discharged by a local "
            "pattern or reasoned; request validators dominate segment execution; front ends enter only through IndexReader::search; "
            "a parameter that receives an empty slice literal on the search path is never indexed directly; a string offset `found index + w` "
            "takes w from the same match "
            "(compiler-inserted checks, allocation, recursion depth, termination not decided)", "5/C16"),
    "C17": ("four-way sibling-table agreement, verify-before-use dominance, codec table inversion, read-site integrity flow, panic-source enumeration",
            "segment file table agrees across write/hash/compare/remove with matching checksum names; checksum comparison dominates "
            "every content read at open and a mismatch is an error; fast-field codec tables inverse and exhaustive; every file read on "
            "the open path is integrity-checked first (manifest: known finding); pre-verification parsers have no unreasoned panic source; "
            "open creates a fresh manifest only when Storage::exists says there is none",
            "5/C17"),
    "C18": ("guard dominance on the group order, iterator identity of representative and inner hits, comparator argument order, must-order of the window operations",
            "the grouping skeleton of collapse_hits: a value enters the order once (contains_key miss) and its group is removed when "
            "emitted; the group is sorted by (a.key, b.key), the representative is the first of that sorted list and the inner hits "
            "are the rest of the same iterator; a differing inner sort goes through resort_hits with the inner plan and an (a, b) "
            "comparison, applied ONCE to the whole list (no per-sub-list sort, nothing combined afterwards); `from` is applied before "
            "`size`. Which documents share a value and how they rank is NOT decided", "5/C18"),
    "C19": ("container-aware value flow of hit indices from the window enumeration, provenance of the re-sort range, per-arm operation table of the score modes",
            "four clauses: every index used to modify or drop a hit is an enumeration of hits.iter().take(window) with window "
            "bounded by window_size; the re-sorted prefix is that window minus the dropped hits (never a length taken after a "
            "removal); Total/Sum add, Multiply multiplies, Max/Min take max/min of (original, rescore) and the call passes (mode, "
            "original score, rescore score); per-document tables cached while rescoring are created per segment. Scores and the order "
            "inside the window are runtime results and NOT decided", "5/C19"),
    "C20": ("type-based non-interference of the profile flag (control-dependence regions with an effect whitelist), read/write discipline of QueryStats",
            "`profile` half: the flag is read only by the search entry functions, branches on it and on the optional stats handle "
            "control only profiling state, counters are write-only outside to_execution_profile; explain: final_score is synchronised "
            "after the last score-mutating call and the per-segment rank limit under explain is the live-document count, independent "
            "of limit/cursor; whether a score is computed does not depend on explain (violated today: two known findings); the "
            "compiled score tree is a structure-preserving copy of the planner's tree (explain's non-interference beyond that is not "
            "decided)", "5/C20"),
    "C21": ("value-flow from regex match offsets through byte arithmetic to str slicing with a char-boundary sanitiser requirement",
            "every arithmetic slice bound on the highlighted text passes an is_char_boundary loop (or boundary helper) before the "
            "slice; fragments are pushed only on a match, once per iteration, in a loop bounded by number_of_fragments; the window's "
            "lower bound stays at or before the match start and its upper bound is start + fragment_size (all definitions joined)", "5/C21"),
    "C23": ("who-may-call over the handler call graph (route table extracted from the router), ordering inside the batch add",
            "no HTTP handler can reach the queue-wiping rollback / truncate; /add and /bulk queue through the all-or-nothing "
            "add_documents, whose checks precede the first append and whose failure arm restores queue and log; every id given to "
            "delete_documents is logged unconditionally; the length a failed commit cuts the log back to is measured by seeking to the end "
            "of the file", "5/C23"),
    "C24": ("handler signature table, spawn_blocking containment of heavy core calls, status-constant table, fallback presence, panic-source enumeration over the request context",
            "handlers return Result<_,HttpError> or a response; HttpError renders the JSON envelope with its status; heavy core calls run "
            "inside spawn_blocking with the JoinError mapped to 500; status constants follow the documented table; unknown routes and "
            "methods get the envelope; no undischarged panic source and no non-boundary byte-offset string operation in the code that "
            "runs on the async runtime while a request is answered", "5/C24"),
    "C25": ("who-may-call from the front ends into the core, SearchResult immutability by type, constant-table agreement",
            "front ends reach the core only through the public entry points and never modify a SearchResult; all IndexOptions "
            "constructions agree on k1/b/positions/storage; CLI string tables equal the serde names; request parts built per element "
            "in a loop carry no state from earlier elements; no front-end type stores an IndexReader / SegmentReader", "5/C25"),
    "C26": ("null-check dominance for every raw-pointer parameter; abstract interpretation of write extents against buf_cap (three-point lattice, fixpoint over all definitions)",
            "all clauses: every dereference behind a null check; every write through the output pointer enumerated and its extent "
            "classified < / <= buf_cap from all definitions (min, saturating_sub, +1, guarded -1); NUL position == copied count == "
            "return value; source is the encoded response without offset; writes only when buf_cap != 0; early returns are constants", "5/C26"),
    "C27": ("await-chain dominance over coroutine MIR (poll resolved to the polled coroutine), loop-exit and edge-removal reachability, lock-region must-analysis; wasm.rs type-checked for the host through a generated harness crate that #[path]-includes the repository's file",
            "ONE half only ('every commit whose promise resolved is fully present'), through six structural clauses: commit/create reach "
            "Ok only through Poll::Ready(Ok) of the backend flush after the core write; the flush await chain is unbroken and forwards "
            "results; PendingWrites::flush takes the whole receiver list, awaits every receiver, records every failure; every in-memory "
            "mutation schedules a whole-file snapshot or a delete and every JsFile mutator sets dirty; schedule registers receiver, "
            "data and sender on every path and starts a worker unless one is in flight, in one critical section; the worker stops only "
            "on 'nothing pending' seen under the lock, clears inflight there, notifies every waiter after each persist and reports "
            "failure. NOT decided: anything depending on the order in which the browser runs persistence tasks / completes IndexedDB "
            "requests (in particular 'never a partial commit' after a reload)", "5/C27"),
    "C28": ("taint/sanitiser flow over MIR (deserialised paths must be re-rooted), constructor who-may-call, path-builder provenance",
            "a manifest loaded from disk is re-rooted at the opened directory before it is published; SegmentPaths are built only by "
            "directory::segment_paths as root.join(name-with-id); every root handed to the path builders derives from the opened "
            "directory", "5/C28"),
    "C22": ("counter discipline over natural loops (increment only under a contains_key miss, no loop exit on the counter), accumulation flow of doc_freq, comparator argument order",
            "four clauses: the scan cap counts distinct terms and never stops the scan of later segments (doc_freq below the cap is "
            "layout-independent); doc_freq is accumulated by addition wherever it is written; options are sorted score-descending then "
            "text-ascending and cut to size after the sort; every length pre-filter against an edit budget counts characters, the unit of "
            "the edit distance. Which terms match and their frequencies are runtime facts and NOT decided", "5/C22"),
    "C29": ("guard dominance over the kept graph candidates, rejecting-comparison dominance for the dimension, per-arm operation table of the metric, who-may-call of the graph search — on the workspace built WITH the vectors feature",
            "five clauses (configuration `features`): a graph candidate is kept only if live and passing the request filter and the "
            "vector filter, its score multiplied by the clause boost; a clause enters the plan only after vector.len() == field.dim; "
            "Cosine is the dot product and L2 the negated l2_distance of (a, b); the HNSW graph is searched from "
            "collect_vector_maps only, with a size that does not depend on deletions. Similarity values, the blend and nearest-neighbour "
            "exactness are NOT decided", "5/C29"),
    "C30": ("must-order of the page-cutting steps, key-function agreement between sort and filter, operator strictness, provenance of after_key",
            "the page-cutting skeleton of finalize_composite: sort, then filter by `after`, then has_more = (len > size), then cut; sort "
            "and filter build keys with the same function; the filter is strictly `>` and has_more strictly `>`; after_key is the "
            "last returned bucket's key exactly under has_more; every ordering the crate defines on the composite key types goes through "
            "f64::total_cmp (one order). Completeness of the buckets across pages is NOT decided", "5/C30"),
}

NA = {
}


def main():
    props = [json.loads(l) for l in open(os.path.join(HERE, "properties.jsonl"))]
    checks = []
    na = []
    for p in props:
        pid = p["id"]
        if pid in CLAIMED:
            tech, what, ref = CLAIMED[pid]
            checks.append({
                "property_id": pid,
                "quick_cmd": "./check %s --tier quick" % pid,
                "thorough_cmd": "./check %s --tier thorough" % pid,
                "evidence_file": "/verif/evidence/%s.json" % pid,
                "replay_cmd_template": "./check %s --explain {path}" % pid,
                "engine": "slfacts+sa",
                "level_claimed": {"category": "other", "text": LEVEL_TEXT % what, "design_ref": "DESIGN.md §" + ref},
                "level_note": NOTE,
                "technique": "static analysis: " + tech,
            })
        else:
            na.append({"property_id": pid, "reason": NA.get(pid, "not yet covered by a static rule in this revision")})
    m = {
        "version": 1,
        "setup_cmd": "cd /verif/driver && CARGO_NET_OFFLINE=true cargo +nightly build --release --offline && cd /verif && ./check --warm",
        "hooks": {
            "guard": "searchlite_verif",
            "enable": "n/a - static analysis reads /repo's source as it is; no hooks or instrumentation are compiled in",
            "baseline_off_cmd": "cd /repo && cargo test --workspace --no-fail-fast --offline",
            "source_commits": [],
            "add_only": True,
        },
        "engines": [
            {"name": "slfacts", "path": "driver/", "serves_properties": sorted(CLAIMED),
             "kind_free_text": "rustc_private driver (RUSTC_WORKSPACE_WRAPPER under cargo +nightly check): dumps mir_built with resolved callees, ADT tables and signatures for every workspace crate"},
            {"name": "sa", "path": "sa/", "serves_properties": sorted(CLAIMED),
             "kind_free_text": "Python rule engine: CFG/dominators/post-dominators/control dependence, call graph with closure edges, effect summaries, value slices, lock regions; per-property rules in sa/rules/"},
        ],
        "checks": checks,
        "not_applicable": na,
        "notes": "Technique family: static analysis only. KNOWN_FINDINGS.txt lists genuine defects recorded rather than repaired (matched by exact obligation key) and fixed: entries. selftest/ holds the seeded variants used to test the checker both ways.",
    }
    with open(os.path.join(HERE, "MANIFEST.json"), "w") as fh:
        json.dump(m, fh, indent=1)
        fh.write("\n")
    print("MANIFEST.json: %d checks, %d not applicable" % (len(checks), len(na)))


if __name__ == "__main__":
    main()
