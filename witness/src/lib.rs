//! Compile-fail witnesses for the visibility facts the who-may-call rules (R04.a, R05.a, R23.a) lean on:
//! external code has no way to publish a manifest, reach the shared index state or edit a writer's queue
//! except through the checked entry points. Every witness has a compiling twin that differs only by the
//! offending line, so a witness whose path is merely wrong cannot pass.
//!
//! Run with `cargo +nightly test --doc --offline` (error codes are only checked on nightly).

/// `Index.inner` (the shared state with the manifest lock and the writer lock) is not reachable.
/// ```compile_fail,E0616
/// fn f(idx: &searchlite_core::api::Index) { let _ = &idx.inner; }
/// ```
/// twin:
/// ```no_run
/// fn f(idx: &searchlite_core::api::Index) { let _ = idx.manifest(); }
/// ```
pub struct IndexInnerIsPrivate;

/// `InnerIndex` cannot even be named from outside the crate.
/// ```compile_fail,E0603
/// use searchlite_core::index::InnerIndex;
/// ```
/// twin:
/// ```no_run
/// use searchlite_core::api::Index;
/// ```
pub struct InnerIndexIsPrivate;

/// A writer's queue cannot be edited directly.
/// ```compile_fail,E0616
/// fn f(w: &mut searchlite_core::api::IndexWriter) { w.pending_ops.clear(); }
/// ```
/// twin:
/// ```no_run
/// fn f(w: &mut searchlite_core::api::IndexWriter) { let _ = w.rollback(); }
/// ```
pub struct PendingOpsArePrivate;

/// The writer's log handle is not reachable (nobody else can truncate or append to the WAL through it).
/// ```compile_fail,E0616
/// fn f(w: &mut searchlite_core::api::IndexWriter) { let _ = &mut w.wal; }
/// ```
/// twin:
/// ```no_run
/// fn f(w: &mut searchlite_core::api::IndexWriter) { let _ = w.commit(); }
/// ```
pub struct WalHandleIsPrivate;

/// `IndexWriter::new` is crate-private: writers are created through `Index::writer` only.
/// ```compile_fail,E0624
/// fn f() { let _ = searchlite_core::api::IndexWriter::new; }
/// ```
/// twin:
/// ```no_run
/// fn f(idx: &searchlite_core::api::Index) { let _ = idx.writer(); }
/// ```
pub struct WriterConstructorIsPrivate;

/// `cleanup_segments` (the only route to file removal) is crate-private.
/// ```compile_fail,E0603
/// use searchlite_core::index::cleanup_segments;
/// ```
/// twin:
/// ```no_run
/// use searchlite_core::api::Index;
/// ```
pub struct CleanupIsPrivate;
