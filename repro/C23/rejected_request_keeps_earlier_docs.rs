// C23 / R23.a: an /add request that is rejected must not drop documents acknowledged by earlier requests, and
// queues none of its own. Place in searchlite-http/tests/. Fails before the fix (the earlier document is gone
// after /commit), passes after.
use clap::Parser;
use searchlite_http::{run, ServeArgs};

async fn post(c: &reqwest::Client, url: String, body: String, json: bool) -> (u16, String) {
  let mut r = c.post(url).body(body);
  if json { r = r.header("content-type", "application/json"); }
  let resp = r.send().await.unwrap();
  (resp.status().as_u16(), resp.text().await.unwrap())
}

#[tokio::test(flavor = "multi_thread")]
async fn rejected_add_does_not_drop_acknowledged_documents() {
  let dir = tempfile::tempdir().unwrap();
  let port = 38653;
  let args = ServeArgs::parse_from(["searchlite-http", "--index", dir.path().to_str().unwrap(), "--bind", &format!("127.0.0.1:{port}")]);
  tokio::spawn(async move { run(args).await });
  let base = format!("http://127.0.0.1:{port}");
  let c = reqwest::Client::new();
  for _ in 0..100 { if c.get(format!("{base}/healthz")).send().await.is_ok() { break; } tokio::time::sleep(std::time::Duration::from_millis(50)).await; }
  let schema = serde_json::json!({"doc_id_field": "_id", "text_fields": [{"name": "body", "analyzer": "default", "stored": true, "indexed": true, "nullable": false}],
    "keyword_fields": [], "numeric_fields": [], "nested_fields": []});
  assert_eq!(post(&c, format!("{base}/init"), schema.to_string(), true).await.0, 200);
  // request 1: acknowledged
  let (s1, b1) = post(&c, format!("{base}/add"), "{\"_id\":\"1\",\"body\":\"rust one\"}\n".into(), false).await;
  assert_eq!(s1, 200, "{b1}");
  // request 2: first document fine, second invalid -> rejected as a whole
  let (s2, _) = post(&c, format!("{base}/add"), "{\"_id\":\"2\",\"body\":\"rust two\"}\n{\"body\":\"no id\"}\n".into(), false).await;
  assert_eq!(s2, 400);
  assert_eq!(post(&c, format!("{base}/commit"), String::new(), false).await.0, 200);
  assert_eq!(post(&c, format!("{base}/refresh"), String::new(), false).await.0, 200);
  let (s3, body) = post(&c, format!("{base}/search"), serde_json::json!({"query": "rust", "limit": 10, "return_stored": true}).to_string(), true).await;
  assert_eq!(s3, 200, "{body}");
  let v: serde_json::Value = serde_json::from_str(&body).unwrap();
  let mut ids: Vec<String> = v["hits"].as_array().unwrap().iter().map(|h| h["doc_id"].as_str().unwrap().to_string()).collect();
  ids.sort();
  assert_eq!(ids, vec!["1".to_string()], "acknowledged doc 1 must survive, rejected request must queue nothing");
}
