// C17 / R17.d known finding: MANIFEST.json carries no integrity check. Changing one digit of `deleted_docs`
// silently changes what a search returns (expected by the property: an error). FAILS on the current tree.
use searchlite_core::api::types::{Document, IndexOptions, SearchRequest, StorageType};
use searchlite_core::api::Index;

fn doc(id: &str, body: &str) -> Document {
  Document { fields: [("_id".into(), serde_json::json!(id)), ("body".into(), serde_json::json!(body))].into_iter().collect() }
}
fn opts(p: &std::path::Path) -> IndexOptions {
  IndexOptions { path: p.to_path_buf(), create_if_missing: true, enable_positions: true, bm25_k1: 0.9, bm25_b: 0.4, storage: StorageType::Filesystem, #[cfg(feature = "vectors")] vector_defaults: None }
}
fn ids(idx: &Index) -> anyhow::Result<Vec<String>> {
  let req: SearchRequest = serde_json::from_value(serde_json::json!({"query": "alpha", "limit": 10, "return_stored": true})).unwrap();
  let r = idx.reader()?.search(&req)?;
  let mut v: Vec<String> = r.hits.iter().map(|h| h.doc_id.clone()).collect(); v.sort(); Ok(v)
}

#[test]
fn altered_manifest_is_detected() {
  let dir = tempfile::tempdir().unwrap();
  {
    let idx = Index::open(opts(dir.path())).unwrap();
    let mut w = idx.writer().unwrap();
    w.add_document(&doc("1", "alpha one")).unwrap();
    w.add_document(&doc("2", "alpha two")).unwrap();
    w.commit().unwrap();
    w.delete_document("1").unwrap();
    w.commit().unwrap();
    assert_eq!(ids(&idx).unwrap(), vec!["2".to_string()]);
  }
  let mp = dir.path().join("MANIFEST.json");
  let s = std::fs::read_to_string(&mp).unwrap();
  let mut v: serde_json::Value = serde_json::from_str(&s).unwrap();
  assert_eq!(v["segments"][0]["deleted_docs"], serde_json::json!([0]));
  v["segments"][0]["deleted_docs"] = serde_json::json!([1]); // one digit: 0 -> 1
  std::fs::write(&mp, serde_json::to_vec_pretty(&v).unwrap()).unwrap();
  let idx = Index::open(opts(dir.path())).unwrap();
  match ids(&idx) {
    Err(_) => {}
    Ok(got) => assert_eq!(got, vec!["2".to_string()], "an altered manifest silently changed the results"),
  }
}
