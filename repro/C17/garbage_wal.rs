// C17 / R17.e: a log made of continuation bytes must be treated as a corrupt tail, not panic
// (shift overflow in varint::read_u64 under overflow checks). Panics before the fix, passes after.
use searchlite_core::api::types::{IndexOptions, StorageType};
use searchlite_core::api::Index;

#[test]
fn garbage_wal_is_recovered_not_a_panic() {
  let dir = tempfile::tempdir().unwrap();
  let opts = IndexOptions { path: dir.path().to_path_buf(), create_if_missing: true, enable_positions: true, bm25_k1: 0.9, bm25_b: 0.4, storage: StorageType::Filesystem, #[cfg(feature = "vectors")] vector_defaults: None };
  let idx = Index::open(opts).unwrap();
  std::fs::write(dir.path().join("wal.log"), [0xFFu8; 12]).unwrap();
  let w = idx.writer();
  assert!(w.is_ok(), "writer must open on a garbage log: {:?}", w.err());
}
