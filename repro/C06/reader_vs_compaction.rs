// C06 / R06.a: a reader that is slow to open its segment files must not fail because a compaction
// finished meanwhile. A Storage wrapper delays the reader thread's second `.meta` read (a slow disk);
// fails with ENOENT before a7e0b2e, passes after (compaction then waits for the reader's read guard).
use searchlite_core::api::types::{Document, IndexOptions, StorageType};
use searchlite_core::api::Index;
use searchlite_core::storage::{DynFile, FsStorage, Storage};
use std::path::Path;
use std::sync::atomic::{AtomicBool, Ordering};
use std::sync::Arc;

thread_local! { static SLOW: std::cell::Cell<bool> = std::cell::Cell::new(false); }

struct SlowStorage { inner: FsStorage, started: AtomicBool }
impl Storage for SlowStorage {
  fn root(&self) -> &Path { self.inner.root() }
  fn ensure_dir(&self, p: &Path) -> anyhow::Result<()> { self.inner.ensure_dir(p) }
  fn exists(&self, p: &Path) -> bool { self.inner.exists(p) }
  fn open_read(&self, p: &Path) -> anyhow::Result<DynFile> { self.inner.open_read(p) }
  fn open_write(&self, p: &Path) -> anyhow::Result<DynFile> { self.inner.open_write(p) }
  fn open_append(&self, p: &Path) -> anyhow::Result<DynFile> { self.inner.open_append(p) }
  fn read_to_end(&self, p: &Path) -> anyhow::Result<Vec<u8>> {
    if SLOW.with(|s| s.get()) && p.to_string_lossy().ends_with(".meta") {
      if self.started.swap(true, Ordering::SeqCst) { std::thread::sleep(std::time::Duration::from_millis(1500)); }
    }
    self.inner.read_to_end(p)
  }
  fn write_all(&self, p: &Path, d: &[u8]) -> anyhow::Result<()> { self.inner.write_all(p, d) }
  fn atomic_write(&self, p: &Path, d: &[u8]) -> anyhow::Result<()> { self.inner.atomic_write(p, d) }
  fn remove(&self, p: &Path) -> anyhow::Result<()> { self.inner.remove(p) }
  fn remove_dir_all(&self, p: &Path) -> anyhow::Result<()> { self.inner.remove_dir_all(p) }
}

fn doc(id: &str, body: &str) -> Document {
  Document { fields: [("_id".into(), serde_json::json!(id)), ("body".into(), serde_json::json!(body))].into_iter().collect() }
}

#[test]
fn reader_open_never_fails_during_compaction() {
  let dir = tempfile::tempdir().unwrap();
  let opts = IndexOptions { path: dir.path().to_path_buf(), create_if_missing: true, enable_positions: true, bm25_k1: 0.9, bm25_b: 0.4, storage: StorageType::Filesystem, #[cfg(feature = "vectors")] vector_defaults: None };
  let storage = Arc::new(SlowStorage { inner: FsStorage::new(dir.path().to_path_buf()), started: AtomicBool::new(false) });
  let idx = Arc::new(Index::open_with_storage(opts, storage.clone()).unwrap());
  for k in 0..3 {
    let mut w = idx.writer().unwrap();
    w.add_document(&doc(&format!("d{k}"), "alpha beta gamma")).unwrap();
    w.commit().unwrap();
  }
  let idx2 = idx.clone();
  let h = std::thread::spawn(move || { SLOW.with(|s| s.set(true)); idx2.reader().map(|_| ()) });
  while !storage.started.load(Ordering::SeqCst) { std::thread::yield_now(); }
  std::thread::sleep(std::time::Duration::from_millis(100));
  idx.compact().unwrap();
  let res = h.join().unwrap();
  assert!(res.is_ok(), "reader open failed because of a concurrent compaction: {:#}", res.unwrap_err());
}
