//! C19: when the rescore query's min_score drops a hit of the window, rescore_hits re-sorted the first `window_size` positions
//! of the SHORTENED list, which then include hits that were ranked behind the window and were never rescored: they jump ahead
//! of the rescored hits although "hits after the window keep their original scores and relative order".
#![allow(unused_imports, dead_code)]
use std::collections::BTreeMap;

use searchlite_core::api::types::{
  DecayFunction, Document, ExecutionStrategy, FieldValueModifier, Filter, FunctionBoostMode,
  FunctionScoreMode, FunctionSpec, IndexOptions, KeywordField, NumericField, Query, QueryNode,
  RankFeatureModifier, RescoreMode, RescoreRequest, Schema, SearchRequest, StorageType,
};
use searchlite_core::api::{Index, SearchResult};

fn doc(id: &str, body: &str, popularity: i64, lang: &str) -> Document {
  Document {
    fields: [
      ("_id".to_string(), serde_json::json!(id)),
      ("body".to_string(), serde_json::json!(body)),
      ("popularity".to_string(), serde_json::json!(popularity)),
      ("lang".to_string(), serde_json::json!(lang)),
    ]
    .into_iter()
    .collect(),
  }
}

fn setup_reader() -> searchlite_core::api::IndexReader {
  let path = tempfile::tempdir().unwrap().path().join("idx");
  let mut schema = Schema::default_text_body();
  schema.keyword_fields.push(KeywordField {
    name: "lang".into(),
    stored: true,
    indexed: true,
    fast: true,
    nullable: false,
  });
  schema.numeric_fields.push(NumericField {
    name: "popularity".into(),
    i64: true,
    fast: true,
    stored: true,
    nullable: false,
  });
  let opts = IndexOptions {
    path: path.clone(),
    create_if_missing: true,
    enable_positions: true,
    bm25_k1: 0.9,
    bm25_b: 0.4,
    storage: StorageType::Filesystem,
    #[cfg(feature = "vectors")]
    vector_defaults: None,
  };
  let idx = Index::create(&path, schema, opts).unwrap();
  let mut writer = idx.writer().unwrap();
  let docs = vec![
    doc("d1", "rust", 50, "en"),
    doc("d2", "rust", 40, "fr"),
    doc("d3", "rust", 30, "en"),
    doc("d4", "rust", 20, "en"),
    doc("d5", "rust", 10, "en"),
  ];
  for d in docs {
    writer.add_document(&d).unwrap();
  }
  writer.commit().unwrap();
  idx.reader().unwrap()
}

fn base_request(query: impl Into<Query>) -> SearchRequest {
  SearchRequest {
    query: query.into(),
    fields: None,
    filter: None,
    limit: 10,
    return_hits: true,
    candidate_size: None,
    sort: Vec::new(),
    cursor: None,
    execution: ExecutionStrategy::Wand,
    bmw_block_size: None,
    fuzzy: None,
    #[cfg(feature = "vectors")]
    vector_query: None,

    #[cfg(feature = "vectors")]
    vector_filter: None,
    return_stored: false,
    highlight_field: None,
    highlight: None,
    collapse: None,
    aggs: BTreeMap::new(),
    suggest: BTreeMap::new(),
    rescore: None,
    explain: false,
    profile: false,
  }
}

fn ids(result: &SearchResult) -> Vec<String> {
  result.hits.iter().map(|h| h.doc_id.clone()).collect()
}

#[test]
fn hits_behind_the_window_stay_behind_it_when_a_window_hit_is_dropped() {
  let reader = setup_reader();
  // first pass: popularity descending -> d1, d2, d3, d4, d5
  let mut req = base_request(QueryNode::RankFeature {
    field: "popularity".into(),
    boost: Some(1.0),
    modifier: Some(RankFeatureModifier::Sqrt),
    missing: Some(0.0),
  });
  let first = reader.search(&req).unwrap();
  assert_eq!(ids(&first), vec!["d1", "d2", "d3", "d4", "d5"]);
  let score_of = |r: &SearchResult, id: &str| r.hits.iter().find(|h| h.doc_id == id).unwrap().score;
  let d4_before = score_of(&first, "d4");
  let d5_before = score_of(&first, "d5");
  // rescore the first three; the rescore query rejects d2 (lang != en scores 1.0 < min_score 2.0); Min mode pulls the
  // surviving window hits down to 2.0, below d4 and d5
  req.rescore = Some(RescoreRequest {
    window_size: 3,
    query: QueryNode::FunctionScore {
      query: Box::new(QueryNode::MatchAll { boost: None }),
      functions: vec![FunctionSpec::Weight {
        weight: 2.0,
        filter: Some(Filter::KeywordEq {
          field: "lang".into(),
          value: "en".into(),
        }),
      }],
      score_mode: Some(FunctionScoreMode::Sum),
      boost_mode: Some(FunctionBoostMode::Multiply),
      max_boost: None,
      min_score: Some(2.0),
      boost: None,
    },
    score_mode: RescoreMode::Min,
  });
  let resp = reader.search(&req).unwrap();
  // d2 is dropped; the window (d1, d3) is reordered among itself; d4 and d5 were behind the window and stay there
  assert_eq!(ids(&resp), vec!["d1", "d3", "d4", "d5"]);
  assert_eq!(score_of(&resp, "d4"), d4_before);
  assert_eq!(score_of(&resp, "d5"), d5_before);
}
