//! C22: the completion scan cap (64 by default) counted (segment, term) occurrences instead of distinct terms, so with 10 matching
//! terms spread over 8 segments (80 occurrences) the last segments were cut off: doc_freq was undercounted and differed from the
//! single-segment layout although far fewer terms than the cap match.
use std::collections::BTreeMap;

use searchlite_core::api::types::{
  Document, ExecutionStrategy, IndexOptions, Schema, SearchRequest, StorageType, SuggestRequest,
};
use searchlite_core::api::Index;

fn opts(path: &std::path::Path) -> IndexOptions {
  IndexOptions {
    path: path.to_path_buf(),
    create_if_missing: true,
    enable_positions: true,
    bm25_k1: 0.9,
    bm25_b: 0.4,
    storage: StorageType::Filesystem,
    #[cfg(feature = "vectors")]
    vector_defaults: None,
  }
}

fn request() -> SearchRequest {
  let mut suggest = BTreeMap::new();
  suggest.insert(
    "s".to_string(),
    SuggestRequest::Completion {
      field: "body".into(),
      prefix: "ru".into(),
      size: 10,
      fuzzy: None,
    },
  );
  SearchRequest {
    query: "ru0".into(),
    fields: None,
    filter: None,
    limit: 1,
    return_hits: true,
    candidate_size: None,
    sort: Vec::new(),
    cursor: None,
    execution: ExecutionStrategy::Wand,
    bmw_block_size: None,
    fuzzy: None,
    #[cfg(feature = "vectors")]
    vector_query: None,
    #[cfg(feature = "vectors")]
    vector_filter: None,
    return_stored: false,
    highlight_field: None,
    highlight: None,
    collapse: None,
    aggs: BTreeMap::new(),
    suggest,
    rescore: None,
    explain: false,
    profile: false,
  }
}

fn suggestions(commits: usize) -> Vec<(String, u64)> {
  let dir = tempfile::tempdir().unwrap();
  let path = dir.path().join("idx");
  let idx = Index::create(&path, Schema::default_text_body(), opts(&path)).unwrap();
  let body = (0..10).map(|i| format!("ru{i}")).collect::<Vec<_>>().join(" ");
  let mut writer = idx.writer().unwrap();
  for d in 0..8 {
    writer
      .add_document(&Document {
        fields: [
          ("_id".to_string(), serde_json::json!(format!("d{d}"))),
          ("body".to_string(), serde_json::json!(body)),
        ]
        .into_iter()
        .collect(),
      })
      .unwrap();
    if commits == 8 {
      writer.commit().unwrap();
    }
  }
  if commits == 1 {
    writer.commit().unwrap();
  }
  let reader = idx.reader().unwrap();
  let resp = reader.search(&request()).unwrap();
  let mut out: Vec<(String, u64)> = resp.suggest["s"]
    .options
    .iter()
    .map(|o| (o.text.clone(), o.doc_freq))
    .collect();
  out.sort();
  out
}

#[test]
fn doc_freq_does_not_depend_on_the_commit_layout() {
  let one = suggestions(1);
  let eight = suggestions(8);
  let expected: Vec<(String, u64)> = (0..10).map(|i| (format!("ru{i}"), 8)).collect();
  assert_eq!(one, expected, "single segment");
  assert_eq!(eight, expected, "eight segments");
}
