// Demonstration for C28 (not part of the repository's suite): fails before the fix, passes after.
use searchlite_core::api::types::{Document, IndexOptions, SearchRequest, StorageType};
use searchlite_core::api::Index;

fn doc(id: &str, body: &str) -> Document {
  Document { fields: [("_id".into(), serde_json::json!(id)), ("body".into(), serde_json::json!(body))].into_iter().collect() }
}
fn opts(p: &std::path::Path) -> IndexOptions {
  IndexOptions { path: p.to_path_buf(), create_if_missing: true, enable_positions: true, bm25_k1: 0.9, bm25_b: 0.4, storage: StorageType::Filesystem, #[cfg(feature = "vectors")] vector_defaults: None }
}
fn listing(p: &std::path::Path) -> Vec<std::ffi::OsString> {
  let mut v: Vec<_> = std::fs::read_dir(p).unwrap().map(|e| e.unwrap().file_name()).collect(); v.sort(); v
}

#[test]
fn copied_index_is_self_contained() {
  let a = tempfile::tempdir().unwrap();
  let b = tempfile::tempdir().unwrap();
  {
    let idx = Index::open(opts(a.path())).unwrap();
    for k in 0..2 { let mut w = idx.writer().unwrap(); w.add_document(&doc(&format!("d{k}"), "alpha beta")).unwrap(); w.commit().unwrap(); }
  }
  for e in std::fs::read_dir(a.path()).unwrap() { let e = e.unwrap(); std::fs::copy(e.path(), b.path().join(e.file_name())).unwrap(); }
  let before = listing(a.path());
  let idx = Index::open(opts(b.path())).unwrap();
  idx.compact().unwrap(); // must not delete the original's segment files
  assert_eq!(before, listing(a.path()), "compaction of the copy changed the original directory");
  std::fs::remove_dir_all(a.path()).unwrap();
  let idx = Index::open(opts(b.path())).unwrap();
  let r = idx.reader().expect("copy must open without the original");
  let req: SearchRequest = serde_json::from_value(serde_json::json!({"query": "alpha", "limit": 10, "return_stored": true})).expect("request");
  assert_eq!(r.search(&req).unwrap().hits.len(), 2);
}
