#![cfg(feature = "vectors")]
// C14 / R14.b known finding (feature `vectors`): compaction rebuilds the segment from stored fields; vector fields are
// neither stored nor examined by ensure_compact_safe, so every vector is silently dropped.
// Run with: cargo test -p searchlite-core --offline --features vectors --test <name>. FAILS on the current tree.
use std::collections::BTreeMap;
use searchlite_core::api::builder::IndexBuilder;
use searchlite_core::api::types::{Document, ExecutionStrategy, IndexOptions, Query, QueryNode, SearchRequest, StorageType, VectorQuery};
use searchlite_core::{Index, Schema};

fn hits(idx: &Index) -> usize {
  let req = SearchRequest {
    query: Query::Node(QueryNode::Vector(VectorQuery { field: "embedding".into(), vector: vec![1.0, 0.0], k: Some(3), alpha: Some(0.0), ef_search: None, candidate_size: Some(3), boost: None })),
    fields: None, filter: None, limit: 3, return_hits: true, candidate_size: None, sort: Vec::new(), cursor: None,
    execution: ExecutionStrategy::Wand, bmw_block_size: None, fuzzy: None, vector_query: None, vector_filter: None,
    return_stored: true, highlight_field: None, highlight: None, collapse: None, aggs: BTreeMap::new(), suggest: BTreeMap::new(),
    rescore: None, explain: false, profile: false,
  };
  idx.reader().unwrap().search(&req).map(|r| r.hits.len()).unwrap_or(0)
}

#[test]
fn compaction_keeps_vectors_or_refuses() {
  let dir = tempfile::tempdir().unwrap();
  let schema: Schema = serde_json::from_value(serde_json::json!({
    "doc_id_field": "_id",
    "text_fields": [{ "name": "body", "analyzer": "default", "stored": true, "indexed": true, "nullable": false }],
    "keyword_fields": [], "numeric_fields": [], "nested_fields": [],
    "vector_fields": [{ "name": "embedding", "dim": 2, "metric": "Cosine" }]
  })).unwrap();
  let opts = IndexOptions { path: dir.path().to_path_buf(), create_if_missing: true, enable_positions: true, bm25_k1: 0.9, bm25_b: 0.4, storage: StorageType::Filesystem, vector_defaults: None };
  IndexBuilder::create(dir.path(), schema, opts.clone()).unwrap();
  let idx = Index::open(opts).unwrap();
  for (id, v) in [("a", [1.0, 0.0]), ("b", [0.0, 1.0])] {
    let mut w = idx.writer().unwrap();
    w.add_document(&Document { fields: [("_id".to_string(), serde_json::json!(id)), ("body".to_string(), serde_json::json!("rust")), ("embedding".to_string(), serde_json::json!(v))].into_iter().collect() }).unwrap();
    w.commit().unwrap();
  }
  let before = hits(&idx);
  assert_eq!(before, 2);
  let compacted = idx.compact();
  assert!(compacted.is_err() || hits(&idx) == before, "compaction succeeded and changed the vector hits from {} to {}", before, hits(&idx));
}
