// C02 / R02.d: a torn WAL tail must not swallow operations appended (and synced) after it.
// Fails before db3bd73, passes after.
use searchlite_core::api::types::{Document, IndexOptions, StorageType};
use searchlite_core::api::Index;
use std::io::Write;

fn doc(id: &str, body: &str) -> Document {
  Document { fields: [("_id".into(), serde_json::json!(id)), ("body".into(), serde_json::json!(body))].into_iter().collect() }
}

#[test]
fn torn_tail_does_not_lose_later_synced_ops() {
  let dir = tempfile::tempdir().unwrap();
  let opts = IndexOptions { path: dir.path().to_path_buf(), create_if_missing: true, enable_positions: true, bm25_k1: 0.9, bm25_b: 0.4, storage: StorageType::Filesystem, #[cfg(feature = "vectors")] vector_defaults: None };
  let idx = Index::open(opts.clone()).unwrap();
  { let mut w = idx.writer().unwrap(); w.add_document(&doc("a", "alpha")).unwrap(); }
  { let mut f = std::fs::OpenOptions::new().append(true).open(dir.path().join("wal.log")).unwrap(); f.write_all(&[5u8, 1, b'x']).unwrap(); }
  { let mut w = idx.writer().unwrap(); w.add_document(&doc("b", "beta")).unwrap(); }
  let idx2 = Index::open(opts).unwrap();
  { let mut w = idx2.writer().unwrap(); w.commit().unwrap(); }
  let m = idx2.manifest();
  let total: u32 = m.segments.iter().map(|s| s.doc_count).sum();
  assert_eq!(total, 2, "both a and b must be committed");
}
