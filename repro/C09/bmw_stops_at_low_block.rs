// C09: BMW ends the whole search when the CURRENT blocks of the terms cannot reach the heap threshold, although a later block
// can hold a better document.  One term, block size 4, every document 10 tokens long (so only tf matters):
//   block 0: d00 tf=5, d01 tf=4, d02/d03 tf=1      -> heap (limit 1 => k = 2) holds tf 5 and tf 4, threshold = score(tf 4)
//   block 1: d04..d07 tf=1                           -> block bound score(tf 1) < threshold
//   block 2: d08 tf=10, d09..d11 tf=1                -> d08 is the best document of the index
// The exhaustive strategy returns d08; before the fix `bmw` returned d00.
use std::collections::BTreeMap;
use searchlite_core::api::types::{Document, ExecutionStrategy, IndexOptions, QueryNode, Schema, SearchRequest, StorageType};
use searchlite_core::api::Index;

fn request(exec: ExecutionStrategy, limit: usize) -> SearchRequest {
  let q = QueryNode::Term { field: "body".into(), value: "rust".into(), boost: None };
  SearchRequest { query: q.into(), fields: None, filter: None, limit, return_hits: true, candidate_size: None, sort: Vec::new(), cursor: None,
    execution: exec, bmw_block_size: Some(4), fuzzy: None,
    #[cfg(feature = "vectors")] vector_query: None, #[cfg(feature = "vectors")] vector_filter: None,
    return_stored: false, highlight_field: None, highlight: None, collapse: None, aggs: BTreeMap::new(), suggest: BTreeMap::new(),
    rescore: None, explain: false, profile: false }
}

fn body(tf: usize) -> String {
  let mut v = vec!["rust"; tf];
  v.extend(std::iter::repeat("pad").take(10 - tf));
  v.join(" ")
}

#[test]
fn bmw_keeps_searching_behind_a_block_that_cannot_reach_the_threshold() {
  let dir = tempfile::tempdir().unwrap();
  let schema = Schema::default_text_body();
  let opts = IndexOptions { path: dir.path().to_path_buf(), create_if_missing: true, enable_positions: true, bm25_k1: 0.9, bm25_b: 0.4, storage: StorageType::Filesystem, #[cfg(feature = "vectors")] vector_defaults: None };
  let idx = Index::create(dir.path(), schema, opts).unwrap();
  let mut w = idx.writer().unwrap();
  let tfs = [5usize, 4, 1, 1, 1, 1, 1, 1, 10, 1, 1, 1];
  for (i, tf) in tfs.iter().enumerate() {
    w.add_document(&Document { fields: [("_id".to_string(), serde_json::json!(format!("d{i:02}"))), ("body".to_string(), serde_json::json!(body(*tf)))].into_iter().collect() }).unwrap();
  }
  w.commit().unwrap();
  let r = idx.reader().unwrap();
  for limit in 1..=3usize {
    let ids = |e| r.search(&request(e, limit)).unwrap().hits.iter().map(|h| h.doc_id.clone()).collect::<Vec<_>>();
    let exact = ids(ExecutionStrategy::Bm25);
    assert_eq!(exact[0], "d08");
    assert_eq!(ids(ExecutionStrategy::Wand), exact, "wand differs from bm25 at limit {limit}");
    assert_eq!(ids(ExecutionStrategy::Bmw), exact, "bmw differs from bm25 at limit {limit}");
  }
}
