// C09 / R09.b: wand/bmw pruned against a BM25 bound although function_score rewrites the score.
// Fails before the fix (wand/bmw return low-popularity docs), passes after.
use std::collections::BTreeMap;
use searchlite_core::api::types::{
  Document, ExecutionStrategy, FieldValueModifier, FunctionBoostMode, FunctionScoreMode, FunctionSpec, IndexOptions,
  NumericField, QueryNode, Schema, SearchRequest, StorageType,
};
use searchlite_core::api::Index;

fn request(exec: ExecutionStrategy) -> SearchRequest {
  let q = QueryNode::FunctionScore {
    query: Box::new(QueryNode::Term { field: "body".into(), value: "rust".into(), boost: None }),
    functions: vec![FunctionSpec::FieldValueFactor { field: "popularity".into(), factor: 1.0, modifier: Some(FieldValueModifier::None), missing: None, filter: None }],
    score_mode: Some(FunctionScoreMode::Sum), boost_mode: Some(FunctionBoostMode::Multiply), max_boost: None, min_score: None, boost: None,
  };
  SearchRequest { query: q.into(), fields: None, filter: None, limit: 3, return_hits: true, candidate_size: None, sort: Vec::new(), cursor: None,
    execution: exec, bmw_block_size: Some(4), fuzzy: None,
    #[cfg(feature = "vectors")] vector_query: None, #[cfg(feature = "vectors")] vector_filter: None,
    return_stored: false, highlight_field: None, highlight: None, collapse: None, aggs: BTreeMap::new(), suggest: BTreeMap::new(),
    rescore: None, explain: false, profile: false }
}

#[test]
fn pruned_strategies_agree_with_exhaustive_under_function_score() {
  let dir = tempfile::tempdir().unwrap();
  let mut schema = Schema::default_text_body();
  schema.numeric_fields.push(NumericField { name: "popularity".into(), i64: true, fast: true, stored: true, nullable: false });
  let opts = IndexOptions { path: dir.path().to_path_buf(), create_if_missing: true, enable_positions: true, bm25_k1: 0.9, bm25_b: 0.4, storage: StorageType::Filesystem, #[cfg(feature = "vectors")] vector_defaults: None };
  let idx = Index::create(dir.path(), schema, opts).unwrap();
  let mut w = idx.writer().unwrap();
  for i in 0..40i64 {
    w.add_document(&Document { fields: [("_id".to_string(), serde_json::json!(format!("d{i:02}"))), ("body".to_string(), serde_json::json!("rust")), ("popularity".to_string(), serde_json::json!(i + 1))].into_iter().collect() }).unwrap();
  }
  w.commit().unwrap();
  let r = idx.reader().unwrap();
  let ids = |e| r.search(&request(e)).unwrap().hits.iter().map(|h| h.doc_id.clone()).collect::<Vec<_>>();
  let exact = ids(ExecutionStrategy::Bm25);
  assert_eq!(exact, vec!["d39", "d38", "d37"]);
  assert_eq!(ids(ExecutionStrategy::Wand), exact, "wand differs from bm25");
  assert_eq!(ids(ExecutionStrategy::Bmw), exact, "bmw differs from bm25");
}
