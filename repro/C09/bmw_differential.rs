use std::collections::BTreeMap;
use searchlite_core::api::types::{Document, ExecutionStrategy, IndexOptions, QueryNode, Schema, SearchRequest, StorageType};
use searchlite_core::api::Index;

fn request(q: &str, exec: ExecutionStrategy, limit: usize, bs: usize) -> SearchRequest {
  let q = QueryNode::QueryString { query: q.into(), fields: None, boost: None };
  SearchRequest { query: q.into(), fields: None, filter: None, limit, return_hits: true, candidate_size: None, sort: Vec::new(), cursor: None,
    execution: exec, bmw_block_size: Some(bs), fuzzy: None,
    #[cfg(feature = "vectors")] vector_query: None, #[cfg(feature = "vectors")] vector_filter: None,
    return_stored: false, highlight_field: None, highlight: None, collapse: None, aggs: BTreeMap::new(), suggest: BTreeMap::new(),
    rescore: None, explain: false, profile: false }
}

struct Rng(u64);
impl Rng { fn next(&mut self) -> u64 { self.0 ^= self.0 << 13; self.0 ^= self.0 >> 7; self.0 ^= self.0 << 17; self.0 } fn below(&mut self, n: u64) -> u64 { self.next() % n } }

#[test]
fn bmw_and_wand_agree_with_bm25_on_random_corpora() {
  let words = ["rust", "engine", "search", "fast"];
  let mut rng = Rng(0x9E3779B97F4A7C15);
  for case in 0..120 {
    let dir = tempfile::tempdir().unwrap();
    let opts = IndexOptions { path: dir.path().to_path_buf(), create_if_missing: true, enable_positions: true, bm25_k1: 0.9, bm25_b: 0.4, storage: StorageType::Filesystem, #[cfg(feature = "vectors")] vector_defaults: None };
    let idx = Index::create(dir.path(), Schema::default_text_body(), opts).unwrap();
    let mut w = idx.writer().unwrap();
    let n = 8 + rng.below(40) as usize;
    for i in 0..n {
      let mut toks: Vec<&str> = Vec::new();
      for wd in words.iter() { let big = rng.below(6) == 0; let tf = if rng.below(3) == 0 { 0 } else { rng.below(if big { 12 } else { 3 }) }; for _ in 0..tf { toks.push(wd); } }
      let pad = rng.below(6); for _ in 0..pad { toks.push("pad"); }
      if toks.is_empty() { toks.push("pad"); }
      w.add_document(&Document { fields: [("_id".to_string(), serde_json::json!(format!("d{i:03}"))), ("body".to_string(), serde_json::json!(toks.join(" ")))].into_iter().collect() }).unwrap();
      if rng.below(10) == 0 { w.commit().unwrap(); }
    }
    w.commit().unwrap();
    let r = idx.reader().unwrap();
    for q in ["rust", "rust engine", "rust engine search", "search fast rust engine"] {
      for limit in [1usize, 2, 3, 5] {
        for bs in [1usize, 2, 3, 4, 128] {
          let ids = |e| r.search(&request(q, e, limit, bs)).unwrap().hits.iter().map(|h| (h.doc_id.clone(), h.score.to_bits())).collect::<Vec<_>>();
          let exact = ids(ExecutionStrategy::Bm25);
          assert_eq!(ids(ExecutionStrategy::Wand), exact, "wand case {case} q={q} limit={limit} bs={bs}");
          assert_eq!(ids(ExecutionStrategy::Bmw), exact, "bmw case {case} q={q} limit={limit} bs={bs}");
        }
      }
    }
  }
}
