//! C08: nested paths inside nested paths, several parent objects that EACH carry child objects.
//! collect_nested (index/segment.rs) re-initialised the child count and restarted child indices at 0 for every
//! parent object, so the children of different parents were merged into one object bound to the LAST parent.
use std::collections::BTreeMap;

use searchlite_core::api::builder::IndexBuilder;
use searchlite_core::api::types::{
  Document, ExecutionStrategy, IndexOptions, KeywordField, NestedField, NestedProperty, Schema,
  SearchRequest, StorageType,
};
use searchlite_core::api::Filter;
use serde_json::json;

fn doc(id: &str, fields: Vec<(&str, serde_json::Value)>) -> Document {
  let mut map = BTreeMap::new();
  map.insert("_id".to_string(), json!(id));
  for (k, v) in fields {
    map.insert(k.to_string(), v);
  }
  Document { fields: map }
}

fn request(filter: Filter) -> SearchRequest {
  SearchRequest {
    query: "rust".into(),
    fields: None,
    filter: Some(filter),
    limit: 10,
    return_hits: true,
    candidate_size: None,
    sort: Vec::new(),
    cursor: None,
    execution: ExecutionStrategy::Wand,
    bmw_block_size: None,
    fuzzy: None,
    #[cfg(feature = "vectors")]
    vector_query: None,
    #[cfg(feature = "vectors")]
    vector_filter: None,
    return_stored: false,
    highlight_field: None,
    highlight: None,
    collapse: None,
    aggs: BTreeMap::new(),
    suggest: BTreeMap::new(),
    rescore: None,
    explain: false,
    profile: false,
  }
}

fn kw(name: &str) -> NestedProperty {
  NestedProperty::Keyword(KeywordField {
    name: name.into(),
    stored: true,
    indexed: true,
    fast: true,
    nullable: false,
  })
}

fn eq(field: &str, value: &str) -> Filter {
  Filter::KeywordEq {
    field: field.into(),
    value: value.into(),
  }
}

fn nested(path: &str, filter: Filter) -> Filter {
  Filter::Nested {
    path: path.into(),
    filter: Box::new(filter),
  }
}

fn hit_ids(idx: &searchlite_core::api::Index, filter: Filter) -> Vec<String> {
  let resp = idx.reader().unwrap().search(&request(filter)).unwrap();
  let mut ids: Vec<String> = resp.hits.iter().map(|h| h.doc_id.clone()).collect();
  ids.sort();
  ids
}

#[test]
fn children_of_different_parents_stay_apart() {
  let tmp = tempfile::tempdir().unwrap();
  let path = tmp.path().to_path_buf();
  let mut schema = Schema::default_text_body();
  schema.nested_fields.push(NestedField {
    name: "comment".into(),
    fields: vec![
      kw("author"),
      NestedProperty::Object(NestedField {
        name: "reply".into(),
        fields: vec![kw("tag")],
        nullable: true,
      }),
    ],
    nullable: false,
  });
  let idx = IndexBuilder::create(
    &path,
    schema,
    IndexOptions {
      path: path.clone(),
      create_if_missing: true,
      enable_positions: true,
      bm25_k1: 0.9,
      bm25_b: 0.4,
      storage: StorageType::Filesystem,
      #[cfg(feature = "vectors")]
      vector_defaults: None,
    },
  )
  .unwrap();
  {
    let mut writer = idx.writer().unwrap();
    writer
      .add_document(&doc(
        "d1",
        vec![
          ("body", json!("rust")),
          (
            "comment",
            json!([
              {"author": "alice", "reply": [{"tag": "x"}]},
              {"author": "bob", "reply": [{"tag": "y"}, {"tag": "z"}]}
            ]),
          ),
        ],
      ))
      .unwrap();
    writer.commit().unwrap();
  }
  let both = |author: &str, tag: &str| {
    nested(
      "comment",
      Filter::And(vec![eq("author", author), nested("reply", eq("tag", tag))]),
    )
  };
  // alice's comment has a reply tagged x
  assert_eq!(hit_ids(&idx, both("alice", "x")), vec!["d1".to_string()], "alice/x must match");
  // bob's comment has replies tagged y and z
  assert_eq!(hit_ids(&idx, both("bob", "y")), vec!["d1".to_string()], "bob/y must match");
  assert_eq!(hit_ids(&idx, both("bob", "z")), vec!["d1".to_string()], "bob/z must match");
  // but not the other way round
  assert!(hit_ids(&idx, both("bob", "x")).is_empty(), "bob has no reply tagged x");
  assert!(hit_ids(&idx, both("alice", "y")).is_empty(), "alice has no reply tagged y");
  // one reply object cannot be both y and z
  assert!(
    hit_ids(&idx, nested("comment", nested("reply", Filter::And(vec![eq("tag", "y"), eq("tag", "z")])))).is_empty(),
    "no single reply is tagged y and z"
  );
}

#[test]
fn three_levels_and_parents_without_children() {
  let tmp = tempfile::tempdir().unwrap();
  let path = tmp.path().to_path_buf();
  let mut schema = Schema::default_text_body();
  schema.nested_fields.push(NestedField {
    name: "comment".into(),
    fields: vec![
      kw("author"),
      NestedProperty::Object(NestedField {
        name: "reply".into(),
        fields: vec![
          kw("tag"),
          NestedProperty::Object(NestedField {
            name: "reaction".into(),
            fields: vec![kw("kind")],
            nullable: true,
          }),
        ],
        nullable: true,
      }),
    ],
    nullable: false,
  });
  let idx = IndexBuilder::create(
    &path,
    schema,
    IndexOptions {
      path: path.clone(),
      create_if_missing: true,
      enable_positions: true,
      bm25_k1: 0.9,
      bm25_b: 0.4,
      storage: StorageType::Filesystem,
      #[cfg(feature = "vectors")]
      vector_defaults: None,
    },
  )
  .unwrap();
  {
    let mut writer = idx.writer().unwrap();
    writer
      .add_document(&doc(
        "d1",
        vec![
          ("body", json!("rust")),
          (
            "comment",
            json!([
              {"author": "alice"},
              {"author": "bob", "reply": [{"tag": "y", "reaction": [{"kind": "up"}]}, {"tag": "z"}]},
              {"author": "carol", "reply": {"tag": "w", "reaction": [{"kind": "down"}, {"kind": "up"}]}}
            ]),
          ),
        ],
      ))
      .unwrap();
    writer.commit().unwrap();
  }
  let q = |author: &str, tag: &str, kind: &str| {
    nested(
      "comment",
      Filter::And(vec![
        eq("author", author),
        nested("reply", Filter::And(vec![eq("tag", tag), nested("reaction", eq("kind", kind))])),
      ]),
    )
  };
  assert_eq!(hit_ids(&idx, q("bob", "y", "up")), vec!["d1".to_string()]);
  assert_eq!(hit_ids(&idx, q("carol", "w", "down")), vec!["d1".to_string()]);
  assert_eq!(hit_ids(&idx, q("carol", "w", "up")), vec!["d1".to_string()]);
  assert!(hit_ids(&idx, q("bob", "z", "up")).is_empty(), "reply z has no reaction");
  assert!(hit_ids(&idx, q("bob", "y", "down")).is_empty(), "down belongs to carol's reply");
  assert!(hit_ids(&idx, q("alice", "y", "up")).is_empty(), "alice has no reply");
  assert!(hit_ids(&idx, q("carol", "y", "up")).is_empty(), "y belongs to bob");
}
