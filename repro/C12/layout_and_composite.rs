// C12: (1) R12.b — a composite histogram source over an i64 fast field produced no buckets (fixed);
//      (2) R12.a — known finding: terms min_doc_count is applied per segment, so the result depends on the
//          commit layout (this test FAILS on the current tree).
use searchlite_core::api::types::{Document, IndexOptions, KeywordField, NumericField, Schema, SearchRequest, StorageType};
use searchlite_core::api::Index;

fn index(layout: &[&[(&str, i64, &str)]]) -> (tempfile::TempDir, Index) {
  let dir = tempfile::tempdir().unwrap();
  let mut schema = Schema::default_text_body();
  schema.keyword_fields.push(KeywordField { name: "tag".into(), stored: true, indexed: true, fast: true, nullable: false });
  schema.numeric_fields.push(NumericField { name: "n".into(), i64: true, fast: true, stored: true, nullable: false });
  let opts = IndexOptions { path: dir.path().to_path_buf(), create_if_missing: true, enable_positions: true, bm25_k1: 0.9, bm25_b: 0.4, storage: StorageType::Filesystem, #[cfg(feature = "vectors")] vector_defaults: None };
  let idx = Index::create(dir.path(), schema, opts).unwrap();
  for seg in layout {
    let mut w = idx.writer().unwrap();
    for (id, n, tag) in seg.iter() {
      w.add_document(&Document { fields: [("_id".to_string(), serde_json::json!(id)), ("body".to_string(), serde_json::json!("rust")), ("n".to_string(), serde_json::json!(n)), ("tag".to_string(), serde_json::json!(tag))].into_iter().collect() }).unwrap();
    }
    w.commit().unwrap();
  }
  (dir, idx)
}
fn aggs(idx: &Index, aggs: serde_json::Value) -> serde_json::Value {
  let req: SearchRequest = serde_json::from_value(serde_json::json!({"query": "rust", "limit": 1, "return_stored": false, "aggs": aggs})).unwrap();
  serde_json::to_value(&idx.reader().unwrap().search(&req).unwrap().aggregations).unwrap()
}

#[test]
fn composite_histogram_over_i64_field_has_buckets() {
  let (_d, idx) = index(&[&[("a", 1, "x"), ("b", 12, "x")]]);
  let v = aggs(&idx, serde_json::json!({"c": {"type": "composite", "size": 10, "sources": [{"type": "histogram", "name": "h", "field": "n", "interval": 10.0}]}}));
  assert_eq!(v["c"]["buckets"].as_array().map(|b| b.len()), Some(2), "{v}");
}

#[test]
fn terms_min_doc_count_is_applied_to_merged_counts() {
  let one: &[&[(&str, i64, &str)]] = &[&[("a", 1, "x"), ("b", 2, "x")]];
  let two: &[&[(&str, i64, &str)]] = &[&[("a", 1, "x")], &[("b", 2, "x")]];
  let spec = serde_json::json!({"t": {"type": "terms", "field": "tag", "size": 10, "min_doc_count": 2}});
  let (_d1, i1) = index(one);
  let (_d2, i2) = index(two);
  assert_eq!(aggs(&i1, spec.clone()), aggs(&i2, spec), "terms aggregation depends on the segment layout");
}
