// C16: three deserializable requests that panicked the search before the fixes
// (b2a3074 cursor utf8, d6c7588 root-level pipeline agg, and the repeated-term debug_assert).
use searchlite_core::api::types::{Document, IndexOptions, SearchRequest, StorageType};
use searchlite_core::api::Index;

fn doc(id: &str, body: &str) -> Document {
  Document { fields: [("_id".into(), serde_json::json!(id)), ("body".into(), serde_json::json!(body))].into_iter().collect() }
}
fn index() -> (tempfile::TempDir, Index) {
  let dir = tempfile::tempdir().unwrap();
  let opts = IndexOptions { path: dir.path().to_path_buf(), create_if_missing: true, enable_positions: true, bm25_k1: 0.9, bm25_b: 0.4, storage: StorageType::Filesystem, #[cfg(feature = "vectors")] vector_defaults: None };
  let idx = Index::open(opts).unwrap();
  let mut w = idx.writer().unwrap();
  for k in 0..4 { w.add_document(&doc(&format!("d{k}"), "rust search engine")).unwrap(); }
  w.commit().unwrap();
  (dir, idx)
}
fn run(v: serde_json::Value) -> anyhow::Result<usize> {
  let (_d, idx) = index();
  let req: SearchRequest = serde_json::from_value(v)?;
  Ok(idx.reader()?.search(&req)?.hits.len())
}

#[test]
fn cursor_with_multibyte_char_is_an_error() {
  let cursor = format!("{}é", "0".repeat(40)); // 42 bytes, splits inside the 2-byte char
  let _ = run(serde_json::json!({"query": "rust", "limit": 2, "return_stored": true, "cursor": cursor}));
}

#[test]
fn root_level_pipeline_agg_is_an_error() {
  let _ = run(serde_json::json!({"query": "rust", "limit": 2, "return_stored": true,
    "aggs": {"p": {"type": "avg_bucket", "buckets_path": "x>y"}}}));
}

#[test]
fn repeated_term_in_two_clauses_does_not_panic() {
  let r = run(serde_json::json!({"query": {"type": "bool", "should": [
      {"type": "term", "field": "body", "value": "rust"}, {"type": "term", "field": "body", "value": "rust"}]},
    "limit": 10, "return_stored": true}));
  assert_eq!(r.unwrap(), 4);
}
