// C21 / R21.a: byte arithmetic on the match offset landed inside a multi-byte character and the
// highlighter returned an empty fragment. Fails before the fix, passes after.
use searchlite_core::api::types::{Document, IndexOptions, SearchRequest, StorageType};
use searchlite_core::api::Index;

#[test]
fn multibyte_text_yields_a_wellformed_fragment() {
  let dir = tempfile::tempdir().unwrap();
  let opts = IndexOptions { path: dir.path().to_path_buf(), create_if_missing: true, enable_positions: true, bm25_k1: 0.9, bm25_b: 0.4, storage: StorageType::Filesystem, #[cfg(feature = "vectors")] vector_defaults: None };
  let idx = Index::open(opts).unwrap();
  let text = format!("{} rust {}", "é".repeat(31), "ü".repeat(40));
  let mut w = idx.writer().unwrap();
  w.add_document(&Document { fields: [("_id".into(), serde_json::json!("1")), ("body".into(), serde_json::json!(text))].into_iter().collect() }).unwrap();
  w.commit().unwrap();
  let req: SearchRequest = serde_json::from_value(serde_json::json!({"query": "rust", "limit": 5, "return_stored": true,
    "highlight": {"fields": {"body": {"fragment_size": 21, "number_of_fragments": 1}}}})).unwrap();
  let res = idx.reader().unwrap().search(&req).unwrap();
  let v = serde_json::to_value(&res.hits[0]).unwrap();
  let frags: Vec<String> = serde_json::from_value(v["highlights"]["body"].clone()).expect("highlights.body");
  assert_eq!(frags.len(), 1, "{v}");
  let f = &frags[0];
  assert!(f.contains("<em>rust</em>"), "fragment {:?} has no tagged match", f);
  let plain = f.replace("<em>", "").replace("</em>", "");
  assert!(text.contains(&plain) && plain.len() <= 21, "fragment {:?}", f);
}
