// C13 / R13.a: aggregations must be identical on every page of a cursor walk.
// Fails before the fix (page 2 counts only the documents after the cursor), passes after.
use searchlite_core::api::types::{Document, IndexOptions, KeywordField, Schema, SearchRequest, StorageType};
use searchlite_core::api::Index;

fn run(query: serde_json::Value) {
  let dir = tempfile::tempdir().unwrap();
  let mut schema = Schema::default_text_body();
  schema.keyword_fields.push(KeywordField { name: "tag".into(), stored: true, indexed: true, fast: true, nullable: false });
  let opts = IndexOptions { path: dir.path().to_path_buf(), create_if_missing: true, enable_positions: true, bm25_k1: 0.9, bm25_b: 0.4, storage: StorageType::Filesystem, #[cfg(feature = "vectors")] vector_defaults: None };
  let idx = Index::create(dir.path(), schema, opts).unwrap();
  let mut w = idx.writer().unwrap();
  for (i, tag) in ["a", "a", "a", "b", "b"].iter().enumerate() {
    w.add_document(&Document { fields: [("_id".to_string(), serde_json::json!(format!("d{i}"))), ("body".to_string(), serde_json::json!("rust")), ("tag".to_string(), serde_json::json!(tag))].into_iter().collect() }).unwrap();
  }
  w.commit().unwrap();
  let r = idx.reader().unwrap();
  let mut req = serde_json::json!({"query": query, "limit": 2, "return_stored": false,
    "aggs": {"tags": {"type": "terms", "field": "tag", "size": 10}}});
  let p1 = r.search(&serde_json::from_value::<SearchRequest>(req.clone()).unwrap()).unwrap();
  let cursor = p1.next_cursor.clone().expect("a second page");
  req["cursor"] = serde_json::json!(cursor);
  let p2 = r.search(&serde_json::from_value::<SearchRequest>(req).unwrap()).unwrap();
  assert_eq!(serde_json::to_value(&p1.aggregations).unwrap(), serde_json::to_value(&p2.aggregations).unwrap(), "aggregations differ between page 1 and page 2");
}

#[test]
fn aggs_do_not_depend_on_the_page_term_query() { run(serde_json::json!("rust")); }

#[test]
fn aggs_do_not_depend_on_the_page_match_all() { run(serde_json::json!({"type": "match_all"})); }
