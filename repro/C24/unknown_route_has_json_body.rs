// C24 / R24.d: unknown paths and unsupported methods must get the {"error":{"type","reason"}} envelope.
// Place in searchlite-http/tests/. Fails before the fix (empty bodies), passes after.
use clap::Parser;
use searchlite_http::{run, ServeArgs};

#[tokio::test(flavor = "multi_thread")]
async fn unknown_route_and_method_have_json_error_bodies() {
  let dir = tempfile::tempdir().unwrap();
  let port = 38654;
  let args = ServeArgs::parse_from(["searchlite-http", "--index", dir.path().to_str().unwrap(), "--bind", &format!("127.0.0.1:{port}")]);
  tokio::spawn(async move { run(args).await });
  let base = format!("http://127.0.0.1:{port}");
  let c = reqwest::Client::new();
  for _ in 0..100 { if c.get(format!("{base}/healthz")).send().await.is_ok() { break; } tokio::time::sleep(std::time::Duration::from_millis(50)).await; }
  for (resp, want) in [(c.get(format!("{base}/nope")).send().await.unwrap(), 404u16), (c.get(format!("{base}/search")).send().await.unwrap(), 405u16)] {
    assert_eq!(resp.status().as_u16(), want);
    let body = resp.text().await.unwrap();
    let v: serde_json::Value = serde_json::from_str(&body).unwrap_or_else(|_| panic!("status {want}: body is not JSON: {body:?}"));
    assert!(v["error"]["type"].is_string() && v["error"]["reason"].is_string(), "{v}");
  }
}
