// C07 / R07.a known finding: candidates come from the scored terms' posting lists only, so a bool query whose
// should clause is optional (it has a must clause and no minimum_should_match) returns only the documents that
// contain the should term. FAILS on the current tree.
use searchlite_core::api::types::{Document, IndexOptions, SearchRequest, StorageType};
use searchlite_core::api::Index;

#[test]
fn should_clause_is_optional_next_to_a_must_clause() {
  let dir = tempfile::tempdir().unwrap();
  let opts = IndexOptions { path: dir.path().to_path_buf(), create_if_missing: true, enable_positions: true, bm25_k1: 0.9, bm25_b: 0.4, storage: StorageType::Filesystem, #[cfg(feature = "vectors")] vector_defaults: None };
  let idx = Index::open(opts).unwrap();
  let mut w = idx.writer().unwrap();
  for (id, body) in [("1", "rust engine"), ("2", "go engine"), ("3", "zig engine"), ("4", "c engine")] {
    w.add_document(&Document { fields: [("_id".to_string(), serde_json::json!(id)), ("body".to_string(), serde_json::json!(body))].into_iter().collect() }).unwrap();
  }
  w.commit().unwrap();
  let req: SearchRequest = serde_json::from_value(serde_json::json!({
    "query": {"type": "bool", "must": [{"type": "match_all"}], "should": [{"type": "term", "field": "body", "value": "rust"}]},
    "limit": 10, "return_stored": false})).unwrap();
  let hits = idx.reader().unwrap().search(&req).unwrap().hits;
  assert_eq!(hits.len(), 4, "match_all must match every document; the should clause only affects the score");
}
