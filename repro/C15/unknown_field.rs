// C15 / R15.a: a document that the segment build rejects must be rejected when it is queued, otherwise
// it blocks every later commit. Fails before the fix (add succeeds, commit fails), passes after.
use searchlite_core::api::types::{Document, IndexOptions, StorageType};
use searchlite_core::api::Index;

#[test]
fn unknown_field_is_rejected_at_add_time() {
  let dir = tempfile::tempdir().unwrap();
  let opts = IndexOptions { path: dir.path().to_path_buf(), create_if_missing: true, enable_positions: true, bm25_k1: 0.9, bm25_b: 0.4, storage: StorageType::Filesystem, #[cfg(feature = "vectors")] vector_defaults: None };
  let idx = Index::open(opts).unwrap();
  let mut w = idx.writer().unwrap();
  let bad = Document { fields: [("_id".into(), serde_json::json!("1")), ("zzz".into(), serde_json::json!(1))].into_iter().collect() };
  let good = Document { fields: [("_id".into(), serde_json::json!("2")), ("body".into(), serde_json::json!("hello"))].into_iter().collect() };
  let accepted = w.add_document(&bad).is_ok();
  w.add_document(&good).unwrap();
  let committed = w.commit();
  assert!(!accepted || committed.is_ok(), "document was accepted but then blocks commit: {:?}", committed.err());
}
