//! C20: with a field-only sort the hit scores are 0 without explain and BM25 with it ("scores" must not depend on explain).
#![allow(unused_imports, dead_code)]
use std::collections::BTreeMap;

use searchlite_core::api::types::{
  DecayFunction, Document, ExecutionStrategy, FieldValueModifier, Filter, FunctionBoostMode,
  FunctionScoreMode, FunctionSpec, IndexOptions, KeywordField, NumericField, Query, QueryNode,
  RankFeatureModifier, RescoreMode, RescoreRequest, Schema, SearchRequest, StorageType,
};
use searchlite_core::api::{Index, SearchResult};

fn doc(id: &str, body: &str, popularity: i64, lang: &str) -> Document {
  Document {
    fields: [
      ("_id".to_string(), serde_json::json!(id)),
      ("body".to_string(), serde_json::json!(body)),
      ("popularity".to_string(), serde_json::json!(popularity)),
      ("lang".to_string(), serde_json::json!(lang)),
    ]
    .into_iter()
    .collect(),
  }
}

fn setup_reader() -> searchlite_core::api::IndexReader {
  let path = tempfile::tempdir().unwrap().path().join("idx");
  let mut schema = Schema::default_text_body();
  schema.keyword_fields.push(KeywordField {
    name: "lang".into(),
    stored: true,
    indexed: true,
    fast: true,
    nullable: false,
  });
  schema.numeric_fields.push(NumericField {
    name: "popularity".into(),
    i64: true,
    fast: true,
    stored: true,
    nullable: false,
  });
  let opts = IndexOptions {
    path: path.clone(),
    create_if_missing: true,
    enable_positions: true,
    bm25_k1: 0.9,
    bm25_b: 0.4,
    storage: StorageType::Filesystem,
    #[cfg(feature = "vectors")]
    vector_defaults: None,
  };
  let idx = Index::create(&path, schema, opts).unwrap();
  let mut writer = idx.writer().unwrap();
  let docs = vec![
    doc("doc-1", "rust fast", 10, "en"),
    doc("doc-2", "rust slow", 1, "en"),
    doc("doc-3", "boring", 5, "fr"),
  ];
  for d in docs {
    writer.add_document(&d).unwrap();
  }
  writer.commit().unwrap();
  idx.reader().unwrap()
}

fn base_request(query: impl Into<Query>) -> SearchRequest {
  SearchRequest {
    query: query.into(),
    fields: None,
    filter: None,
    limit: 10,
    return_hits: true,
    candidate_size: None,
    sort: Vec::new(),
    cursor: None,
    execution: ExecutionStrategy::Wand,
    bmw_block_size: None,
    fuzzy: None,
    #[cfg(feature = "vectors")]
    vector_query: None,

    #[cfg(feature = "vectors")]
    vector_filter: None,
    return_stored: false,
    highlight_field: None,
    highlight: None,
    collapse: None,
    aggs: BTreeMap::new(),
    suggest: BTreeMap::new(),
    rescore: None,
    explain: false,
    profile: false,
  }
}

fn ids(result: &SearchResult) -> Vec<String> {
  result.hits.iter().map(|h| h.doc_id.clone()).collect()
}

#[test]
fn scores_under_a_field_sort_do_not_depend_on_explain() {
  use searchlite_core::api::types::{SortOrder, SortSpec};
  let reader = setup_reader();
  let mut req = base_request("rust");
  req.sort = vec![SortSpec {
    field: "popularity".into(),
    order: Some(SortOrder::Desc),
  }];
  let plain = reader.search(&req).unwrap();
  req.explain = true;
  let explained = reader.search(&req).unwrap();
  let a: Vec<(String, f32)> = plain.hits.iter().map(|h| (h.doc_id.clone(), h.score)).collect();
  let b: Vec<(String, f32)> = explained.hits.iter().map(|h| (h.doc_id.clone(), h.score)).collect();
  assert_eq!(a, b);
}
